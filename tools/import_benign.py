#!/usr/bin/env python3
"""tools/import_benign.py <agent-id> <root> <checks,comma,separated>
Copies behaviour-preserving patches of a sub-agent (<root>/<id>/seeded/patch*.diff) to /verif/benign/<id>-<k>/."""
import glob, json, os, shutil, sys
aid, root, checks = sys.argv[1], sys.argv[2], sys.argv[3].split(",")
src = "%s/%s/seeded" % (root, aid)
patches = sorted(glob.glob(src + "/patch*.diff"), key=lambda p: (len(p), p))
for k, p in enumerate(patches, 1):
    dst = "/verif/benign/%s-%d" % (aid, k)
    os.makedirs(dst, exist_ok=True)
    shutil.copy(p, dst + "/patch.diff")
    for f in ("notes.md", "verify.sh"):
        if os.path.exists(src + "/" + f):
            shutil.copy(src + "/" + f, dst + "/" + f)
    json.dump({"id": "%s-%d" % (aid, k), "source_patch": os.path.basename(p), "checks": checks,
               "origin": "independent sub-agent asked for behaviour-preserving changes (given the contract texts and a scratch worktree)"},
              open(dst + "/meta.json", "w"), indent=1)
    print("imported", dst)
