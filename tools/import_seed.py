#!/usr/bin/env python3
"""Copies the deliverables of a seeding sub-agent (/tmp/mut/Cxx/seeded) to /verif/seeded/Cxx-k/ (one dir per patch)."""
import glob, json, os, shutil, sys
pid = sys.argv[1]
root = sys.argv[2] if len(sys.argv) > 2 else "/tmp/mut"
tag = sys.argv[3] if len(sys.argv) > 3 else ""
src = "%s/%s/seeded" % (root, pid)
patches = sorted(glob.glob(src + "/patch*.diff"), key=lambda p: (len(p), p))
for k, p in enumerate(patches, 1):
    dst = "/verif/seeded/%s-%s%d" % (pid, tag, k)
    os.makedirs(dst, exist_ok=True)
    shutil.copy(p, dst + "/patch.diff")
    for f in os.listdir(src):
        fp = os.path.join(src, f)
        if os.path.isfile(fp) and not (f.startswith("patch") and f.endswith(".diff")) and os.path.getsize(fp) < 200000 and not f.endswith(".log"):
            shutil.copy(fp, dst + "/" + f)
    meta_path = dst + "/meta.json"
    meta = json.load(open(meta_path)) if os.path.exists(meta_path) else {}
    meta.setdefault("id", "%s-%s%d" % (pid, tag, k))
    meta.setdefault("target_property", pid)
    meta.setdefault("source_patch", os.path.basename(p))
    meta.setdefault("origin", "independent sub-agent given only the property text and a scratch worktree")
    json.dump(meta, open(meta_path, "w"), indent=1)
    print("imported", dst)
