#!/usr/bin/env python3
"""tools/seedmatrix.py [--tier quick|thorough] [--props C01,C02] [--repo DIR] <seeded-id>...
Applies each seeded patch to the repository (default /repo; with --repo DIR a scratch git worktree of /repo's HEAD
that is created on demand, so that /repo itself stays untouched and other checks can run meanwhile), runs the given
checks (default: target property + companions) with VERIF_REPO pointing there, reverts, and stores the outcome in
seeded/<id>/results.json. Never run two instances on the same repository directory."""
import json, os, subprocess, sys, time

V = os.path.dirname(os.path.dirname(os.path.abspath(__file__)))
LOCKS = {"C01", "C02", "C03", "C07", "C08", "C09", "C10", "C11", "C12", "C13"}
THREAD = {"C04", "C05", "C14", "C15", "C16", "C17", "C20"}
ZIPF = {"C06", "C18", "C19"}


def companions(t):
    if t in LOCKS:
        return [t] + [p for p in ("C01", "C02") if p != t]
    if t in ZIPF:
        return [t] + [p for p in ("C06", "C18", "C19") if p != t]
    return [t]


def main():
    args = sys.argv[1:]
    tier = "quick"
    props = None
    repo = "/repo"
    base = "seeded"
    target_only = False
    ids = []
    i = 0
    while i < len(args):
        if args[i] == "--tier":
            tier = args[i + 1]; i += 1
        elif args[i] == "--base":   # "benign": behaviour-preserving changes, every check must exit 0
            base = args[i + 1]; i += 1
        elif args[i] == "--repo":
            repo = args[i + 1]; i += 1
        elif args[i] == "--props":
            props = args[i + 1].split(","); i += 1
        elif args[i] == "--target-only":
            target_only = True
        else:
            ids.append(args[i])
        i += 1
    if repo != "/repo" and not os.path.isdir(repo):
        subprocess.run(["git", "-C", "/repo", "worktree", "add", "--detach", repo, "HEAD"], check=True, stdout=subprocess.DEVNULL)
    # evidence of runs against a patched tree must not replace the evidence of the real tree
    env = dict(os.environ, VERIF_REPO=repo, VERIF_EVIDENCE_DIR=os.environ.get("VERIF_EVIDENCE_DIR", "/tmp/seed-evidence"))
    for sid in ids:
        d = os.path.join(V, base, sid)
        meta = json.load(open(d + "/meta.json"))
        target = meta.get("target_property")
        todo = props or ([target] if target_only and base == "seeded" else None) or meta.get("checks") or companions(target)
        if subprocess.run(["git", "-C", repo, "diff", "--quiet"]).returncode != 0:
            print(repo + " is dirty; abort"); sys.exit(2)
        if subprocess.run(["git", "-C", repo, "apply", d + "/patch.diff"]).returncode != 0:
            print(sid, "patch does not apply"); continue
        res_path = d + "/results.json"
        results = json.load(open(res_path)) if os.path.exists(res_path) else {}
        try:
            for p in todo:
                t0 = time.time()
                r = subprocess.run([V + "/check", p, "--tier", tier], stdout=subprocess.PIPE, stderr=subprocess.STDOUT, cwd=V, env=env)
                out = r.stdout.decode(errors="replace")
                lines = [l for l in out.splitlines() if l.startswith("VIOLATION") or l.startswith("  harness=") or l.startswith("  ") and ":" in l]
                key = "%s/%s" % (p, tier)
                results[key] = {"rc": r.returncode, "wall_s": round(time.time() - t0, 1), "detected": r.returncode == 1,
                                "first": [l.strip()[:300] for l in out.splitlines() if l.startswith("  ")][:2],
                                "summary": [l for l in out.splitlines() if " tier=" in l][-1:] }
                print("%s %s rc=%d %.0fs %s" % (sid, key, r.returncode, time.time() - t0, (results[key]["first"] or [""])[0][:160]), flush=True)
        finally:
            subprocess.run(["git", "-C", repo, "checkout", "--", "."])
        json.dump(results, open(res_path, "w"), indent=1)


main()
