#!/bin/bash
# usage: tools/verify_seeds.sh C01 C02 ...   runs each sub-agent's seeded/verify.sh in its scratch worktree
# and stores the RESULT lines under /verif/seeded/<id>/verify_result.txt
for P in "$@"; do
  W=/tmp/mut/$P
  [ -x $W/seeded/verify.sh ] || { echo "$P: no verify.sh"; continue; }
  (cd $W && git checkout -q -- . && timeout 3000 bash seeded/verify.sh > /tmp/mut/$P.verify.log 2>&1; echo "exit=$?" >> /tmp/mut/$P.verify.log)
  k=1
  grep "^RESULT" /tmp/mut/$P.verify.log | while read -r line; do
    d=/verif/seeded/$P-$k
    [ -d $d ] && echo "$line (re-run by the framework author on $(date -u +%F) in a scratch worktree)" > $d/verify_result.txt
    k=$((k+1))
  done
  echo "$P: $(grep -c '^RESULT' /tmp/mut/$P.verify.log) results, $(tail -1 /tmp/mut/$P.verify.log)"
  (cd $W && git checkout -q -- . ; rm -rf _build_verify _build)
done
