#!/bin/bash
# usage: tools/verify_seeds.sh C01 C02 ...   runs each sub-agent's seeded/verify.sh in its scratch worktree
# and stores the RESULT lines under /verif/seeded/<id>/verify_result.txt
ROOT=${ROOT:-/tmp/mut}; TAG=${TAG:-}
for P in "$@"; do
  W=$ROOT/$P
  [ -f $W/seeded/verify.sh ] || { echo "$P: no verify.sh"; continue; }
  (cd $W && git checkout -q -- . && timeout 3000 bash seeded/verify.sh > $ROOT/$P.verify.log 2>&1; echo "exit=$?" >> $ROOT/$P.verify.log)
  k=1
  grep "^RESULT" $ROOT/$P.verify.log | while read -r line; do
    d=/verif/seeded/$P-$TAG$k
    [ -d $d ] && echo "$line (re-run by the framework author on $(date -u +%F) in a scratch worktree)" > $d/verify_result.txt
    k=$((k+1))
  done
  echo "$P: $(grep -c '^RESULT' $ROOT/$P.verify.log) results, $(tail -1 $ROOT/$P.verify.log)"
  (cd $W && git checkout -q -- . ; rm -rf _build_verify _build)
done
