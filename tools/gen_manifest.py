#!/usr/bin/env python3
"""Regenerates /verif/MANIFEST.json (kept in sync with vlib/main.py)."""
import json
import os

V = os.path.dirname(os.path.dirname(os.path.abspath(__file__)))

E1 = "vsched: serialising preemption-bounded scheduler + state cache over the compiled library (engine/, harness/%s)"
CHECKS = {
    "C01": ("locks.cpp", "grant registry (S/SIX/X matrix) and torn-payload monitor evaluated at every step of every interleaving of every client program of families p2x2, p3x1 (+optimistic/PrepareRead families) on all three lock classes",
            "stateless schedule exploration of the implementation (two-thread families without preemption bound, three threads at bound 2 quick / 3 thorough, state cache), grant-registry monitor; every state of the guard-algebra search against one contending section, all interleavings (--galg-contend)"),
    "C02": ("locks.cpp", "every explored execution must terminate (deadlock / lost hand-off rule of the scheduler) and a fresh LockX by an epilogue thread must succeed without waiting; final lock word must be free",
            "schedule exploration with waiting made visible (spin detection), deadlock rule, epilogue thread; breadth-first search over single-thread guard-operation histories keyed by implementation state (--galg)"),
    "C03": ("locks.cpp", "version ghost + commit counter: every VerifyVersion/TryLock*/GetVersion result is checked at its deciding atomic step against the registry and the ghost version, optimistic payload snapshots are compared with the committed value",
            "schedule exploration of OptimisticLock programs (readers x writers x lockers, start versions 0/2^32-1), version-ghost monitor; breadth-first search over single-thread histories of guard/optimistic operations keyed by implementation state"),
    "C04": ("epoch.cpp", "after every ForwardGlobalEpoch: each guard created before the call and still alive is in the list published for the new epoch and GetMinEpoch() <= its epoch; includes ID reuse after thread exit with forced identical probe starts (capacity 1 and 2), recycled std::thread::id, manager re-creation, and every well-formed worker script up to 4 (thorough 5) operations against a set of coordinator scripts",
            "schedule exploration of EpochManager workers x coordinator incl. thread exit under the scheduler; list read through the library's own accessor"),
    "C05": ("idm.cpp", "range, stability and uniqueness-among-running-threads of every GetThreadID result for every multiset of probe start positions, capacities 1-4, up to capacity+2 threads; churn after a wave in which every ID was held and released, next to long-lived holders (barrier / stay operations that cost no preemption); sequential claim/release/oversubscription histories at capacities 5..257 (harness/idm_caps.cpp)",
            "schedule exploration of IDManager with forced probe starts (fake std::thread::id), all start multisets; complete enumeration of a finite menu of sequential histories per capacity"),
    "C06": ("zipf_enum.cpp", "range and inverse-CDF bracket of operator() for every equivalence class of 64-bit engine outputs of every configuration of the grid, both classes, four integer types; wide 32-bit ranges (bin counts next to 2^30, 2^31, 2^32) of the approximate class",
            "exhaustive enumeration of engine-output classes per configuration (bounded input model checking against the CDF)"),
    "C07": ("locks.cpp", "operator bool of every guard after every operation equals the reference ownership model; every release call performs exactly one release, non-owning guards write nothing; sequential guard algebra (move/convert/destroy chains on two locks) and the same with a contender",
            "explicit-state breadth-first search over all admissible single-thread guard-operation histories (acquire, destroy, default/move construction, move assignment, conversions; depth 8/5/6 quick) replayed on the real guards and keyed by their object representation; the same algebra under all interleavings with contenders (hand-written sections guards2/3, and every state representative of the search against one contending section: --galg-contend) against an ownership model; deadlock with an empty grant registry = release that did not release"),
    "C08": ("locks.cpp", "happens-before event sets computed from the memory orders written in the source (C++20 release sequences, fences) on every explored SC interleaving: the end of every earlier conflicting section must happen-before the later section's grant",
            "schedule exploration + declared-order happens-before set analysis at every grant (an overlap of conflicting grants counts as unordered)"),
    "C09": ("locks.cpp", "ghost version advanced exactly at exclusive-grant ends to the prescribed value; invariant version-field == ghost after every write to the lock word; XGuard::GetVersion; wrap-around and SetVersion arguments; final word = version only",
            "schedule exploration of OptimisticLock with start versions near 2^32, version-ghost invariant on every step; breadth-first search over single-thread guard-operation histories (versions 0 and 2^32-2) keyed by implementation state"),
    "C10": ("locks.cpp", "no other SIX/X grant inside a conversion span, no S holder at UpgradeToX return, payload read under SIX unchanged at upgrade return, for U/D/DU/UD chains against 1-2 other threads",
            "schedule exploration of conversion programs, grant-registry monitor with conversion spans; every state of the guard-algebra search (incl. converted and moved guards) against a contending S/SIX/X/upgrade/downgrade section, all interleavings"),
    "C11": ("locks.cpp", "arrival stamp = first effective write to the lock word by a request; at every grant no conflicting request with an earlier stamp may still be waiting",
            "schedule exploration of MCSLock (3x1, 2x2, conv3, fifo4; thorough: 4 threads at bound 2-3), arrival/grant order monitor"),
    "C12": ("locks.cpp", "deterministic heap shadow: no access to a freed node, no access to a node sitting in a thread's spare-node cache, live nodes <= threads + outstanding requests, zero nodes after all threads exited (thread-exit destructors run under the scheduler)",
            "schedule exploration of MCSLock with heap shadow (arena allocator, never reuses within an execution); breadth-first search over single-thread guard-operation histories with the node bound and leak check, its states also against one contending section"),
    "C13": ("locks.cpp", "PrepareRead result checked at its deciding step: non-owning => version valid and no X registered; owning => registry empty at the granting CAS, VerifyVersion true, exactly one release (also after moves); retry numbers 0 and 1",
            "schedule exploration of PrepareRead callers x lockers with CPP_UTILITY_SPINLOCK_RETRY_NUM 0 and 1; single-thread history search including composite-guard moves"),
    "C14": ("idm.cpp", "oversubscribed runs (capacity+1, capacity+2 threads) must terminate; after all threads exited a fresh wave of `capacity` threads obtains IDs: at quiescence (every unfinished thread really waits) no thread may be stuck inside GetThreadID while fewer running threads hold IDs than there are IDs; the same when a client pins the heartbeat of an exiting thread and for salted thread ids; sequential histories at capacities 5..257",
            "schedule exploration incl. thread exit (TLS destructors scheduled) and a gated second wave"),
    "C15": ("idm.cpp", "at every GetThreadID return all heartbeats handed out to earlier owners of that ID are expired; heartbeats of running threads are never expired; all expired after join (shared_ptr reference drop is a schedulable step)",
            "schedule exploration of the exit path against concurrent claims (instrumented shared_ptr/weak_ptr)"),
    "C16": ("epoch.cpp", "per observer the current epoch never decreases, +1 per forward, GetMinEpoch <= later GetCurrentEpoch, quiescent forward publishes exactly {cur, cur-1}; sequential histories across 256-epoch node boundaries",
            "schedule exploration of observers x coordinator + breadth-first search over sequential histories"),
    "C17": ("epoch.cpp", "list returned by GetProtectedEpochs: strictly descending, front == guard epoch, contains epoch-1, object and buffer alive in the heap shadow and bytewise unchanged until the guard dies, with forwards creating/retiring list nodes and bulk stalls",
            "schedule exploration positioned at node boundaries (prefix 0..767 forwards) and in a middle node with a recycled ID slot, heap shadow, list snapshots"),
    "C18": ("zipf_enum.cpp", "every GetCDF value of every configuration of the grid against a long-double Kahan reference: exact class value/monotone/last==1, approximate class == exact for n<=100, last==1, within 0.01 for n>=1000 and 0<=alpha<=3; skew grid includes the neighbourhood of the alpha==1 shortcut",
            "exhaustive enumeration of all bins over a stated finite grid of configurations against a reference model"),
    "C19": ("zipf_enum.cpp", "original/twin/copy/moved/assigned instances give identical sequences, object bytes and table unchanged by calls, max<min throws; a shared const generator used by 2-3 threads under all interleavings at call granularity yields each thread its solo sequence",
            "enumeration over a configuration grid + unbounded schedule exploration at call granularity"),
    "C20": ("epoch.cpp", "breadth-first search over sequential histories {enter_i, leave_i, F, F x254}: after every single forward the list equals the reference set, min is its last element, live list nodes <= ranges+1, and destroying the manager frees everything",
            "explicit-state BFS over operation histories replayed on the real object (turn-taking threads), reference set model; exact-list rule on quiescent forwards of concurrent two-worker programs"),
}
NOTE = ("trusted: engine/vshim.hpp instrumentation (token-level replacement of atomics, fences, pause/sleep, thread id, shared_ptr), the scheduler/"
        "explorer, monitors, g++ 12 and glibc TLS-destructor order; executions are sequentially consistent; bounds as reported in the evidence")
ZNOTE = "trusted: the stated finite configuration grid, libstdc++ uniform_real_distribution monotonicity, long double reference"

m = {
    "version": 1,
    "setup_cmd": "./check --setup",
    "hooks": {
        "guard": "CPP_UTILITY_VERIF",
        "enable": "no source hooks are needed: harness builds force-include /verif/engine/vshim.hpp (which defines CPP_UTILITY_VERIF) in front of the unmodified sources of /repo's working tree",
        "baseline_off_cmd": "cmake -G Ninja -S /repo -B /repo/_build -DCPP_UTILITY_BUILD_TESTS=ON -DFETCHCONTENT_SOURCE_DIR_GOOGLETEST=/usr/src/googletest && cmake --build /repo/_build && ctest --test-dir /repo/_build -j8 --timeout 900",
        "source_commits": [],
        "add_only": True,
    },
    "engines": [
        {"name": "vsched", "path": "engine/vs_engine.cpp", "serves_properties": ["C01", "C02", "C03", "C04", "C05", "C07", "C08", "C09", "C10", "C11", "C12", "C13", "C14", "C15", "C16", "C17", "C19", "C20"],
         "kind_free_text": "stateless model checker for the compiled C++ code: real threads, one at a time, preemption-bounded DFS with state cache, spin detection, deterministic heap with shadow state, declared-order happens-before sets"},
        {"name": "seqbfs", "path": "harness/epoch.cpp", "serves_properties": ["C02", "C03", "C07", "C09", "C12", "C13", "C16", "C20"], "kind_free_text": "breadth-first search over sequential operation histories replayed on the real objects: EpochManager histories against a reference model (harness/epoch.cpp --histories), guard-operation histories of the three lock classes keyed by implementation state (harness/locks.cpp --galg)"},
        {"name": "inputenum", "path": "harness/zipf_enum.cpp", "serves_properties": ["C06", "C18", "C19"], "kind_free_text": "exhaustive enumeration of input equivalence classes over a finite configuration grid against a reference model"},
    ],
    "checks": [],
    "not_applicable": [],
    "notes": "All checks rebuild the harnesses from /repo's working tree (content-hash cache under build/). Genuine defects found and repaired are listed in known_findings.jsonl (fixed: lines) with replays under findings/.",
}
for pid in sorted(CHECKS):
    h, text, tech = CHECKS[pid]
    z = h == "zipf_enum.cpp"
    m["checks"].append({
        "property_id": pid,
        "quick_cmd": "./check %s --tier quick" % pid,
        "thorough_cmd": "./check %s --tier thorough" % pid,
        "evidence_file": "evidence/%s.json" % pid,
        "replay_cmd_template": "./check --replay {path}",
        "engine": "inputenum" if z else ("seqbfs" if pid == "C20" else "vsched"),
        "level_claimed": {"category": "model_checking", "text": text, "design_ref": "DESIGN.md section 3 (%s)" % pid},
        "level_note": ZNOTE if z else NOTE,
        "technique": tech,
    })
json.dump(m, open(os.path.join(V, "MANIFEST.json"), "w"), indent=1)
print("wrote MANIFEST.json with %d checks" % len(m["checks"]))
