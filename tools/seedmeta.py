#!/usr/bin/env python3
"""Fills seeded/<id>/meta.json (what the change does / what it needs) from the sub-agents' reports."""
import json, os
V = os.path.dirname(os.path.dirname(os.path.abspath(__file__)))
M = {
 "C01-1": ("PessimisticLock::LockS: load + fetch_add with roll-back (fetch_sub) instead of CAS; the untouched UnlockX/DowngradeToSIX stores wipe the transient increment and the roll-back corrupts the word", "a writer locks and unlocks between a reader's load and its roll-back (3+ preemptions); conflict needs 4-5"),
 "C01-2": ("MCSLock::LockS second wait loop masks only X (S queued behind SIX is granted); UpgradeToX then grants X while that reader holds S", "three parties: SIX holder, S waiter, a later X moving the tail, then UpgradeToX"),
 "C01-3": ("OptimisticLock::SIXGuard::UpgradeToX: wait-for-no-readers then unconditional fetch_xor instead of CAS", "an S request lands between the check and the fetch_xor"),
 "C02-1": ("MCSLock::LockX/LockSIX link their node to the predecessor before fixing up its state word", "an S holder among the predecessors releases between the link and the fix-up: X bit stays set for ever"),
 "C02-2": ("OptimisticLock::XGuard::new_ver_ widened to 64 bit (ver + 1UL)", "an exclusive section that begins at version 2^32-1 publishes 1<<32 = a phantom shared holder; later X requests wait for ever"),
 "C03-1": ("OptGuard::TryLockSIX acquires with fetch_or instead of a whole-word CAS", "a complete exclusive section of another thread between the load and the fetch_or: owning guard with a stale version"),
 "C03-2": ("XGuard::DowngradeToSIX uses fetch_xor(kXMask) instead of storing new_ver|SIX", "an exclusive section ending in a downgrade publishes no new version; SetVersion dropped"),
 "C04-1": ("CollectProtectedEpochs resets the slot's weak_ptr when it is expired", "a new thread registers its heartbeat in that slot between the expired() test and the reset(): later forwards skip its guard"),
 "C04-2": ("high-water mark tls_bound_ of used IDs (load then store) limits the scan", "two threads register for the first time concurrently and the lower ID's store lands last: the higher slot is never scanned"),
 "C05-1": ("claim with compare_exchange_strong whose expected variable lives outside the probe loop", "one thread loses two load-to-CAS races in a row: CAS(true->true) succeeds on an occupied slot (3 threads, 4 preemptions)"),
 "C05-2": ("probe loop bounded to one lap, SetID unconditional", "more requesters than IDs alive at once: the extra thread adopts an occupied ID"),
 "C06-1": ("ApproxZipfDistribution::UpdateCDF: n <= 100 became n < 100", "exactly 100 bins: last CDF entry not pinned, a variate in the top ulps returns max+1"),
 "C06-2": ("ZipfDistribution::operator(): fast path for alpha == 0 computing floor(u*n)", "alpha exactly 0, bin count not a power of two, u within a few ulps of a breakpoint"),
 "C07-1": ("MCSLock conversions rewritten with std::exchange; the successor path of UpgradeToX keeps dest_ in the source guard", "another thread is already queued behind the SIX holder when UpgradeToX is called: grant released twice"),
 "C07-2": ("OptimisticLock guard move assignments implemented by swap", "move-assigning a named owning guard over another owning guard: the moved-from guard still owns, old grant not released at the assignment"),
 "C08-1": ("PessimisticLock::UnlockS back to memory_order_relaxed", "an S section that only reads followed by an X section of another thread: no happens-before edge"),
 "C08-2": ("PessimisticLock::LockX: acquire moved from the CAS to the preceding load", "a complete section of another thread between the load and the CAS (word returns to 0)"),
 "C09-1": ("XGuard::new_ver_ widened to 64 bit (same change as C02-2)", "exclusive section starting at version 2^32-1"),
 "C09-2": ("XGuard move assignment (std::exchange rewrite) no longer copies new_ver_", "an exclusive grant that is move-assigned and then ended through the assigned-to guard publishes a stale version"),
 "C10-1": ("PessimisticLock::UpgradeToX: spin until word == SIX, then fetch_xor", "a LockS CAS lands between the check and the fetch_xor: upgrade returns with a reader inside"),
 "C10-2": ("MCSLock::DowngradeToSIX successor path xors kXLock instead of kXMask", "a SIX/X request queued behind the X holder before the downgrade is granted while the SIX grant is live"),
 "C11-1": ("MCSLock::LockS 'tail moved' branch polls the predecessor node instead of the successor's word", "an S queued behind a waiting X, then another X/SIX enqueues: the S is granted before the earlier X"),
 "C11-2": ("LockX/LockSIX: node word starts at 0 and is linked before the predecessor's flags are merged", "the S waiter reads the new node's word between link and merge"),
 "C12-1": ("MCSLock::LockS takes its node lazily and no longer returns it on the join path", "two LockS race for a free lock, the loser joins the winner's group: its node leaks"),
 "C12-2": ("LockX/LockSIX link before copying the predecessor group's S count", "X/SIX holder with an S waiter releases inside that window: node recycled while a sharer still uses it, freed twice"),
 "C13-1": ("PrepareRead fallback: 'a version is enough' test narrowed from any lock bit to the SIX bit", "X holder through the optimistic attempts, then another thread holds S when the caller wakes: shared grant stacked on S and never released"),
 "C13-2": ("CompositeGuard move constructor = default (does not clear has_lock_ in the source)", "an owning composite guard that is move-constructed is released twice"),
 "C14-1": ("'do not spin while the table is full': waiters sleep on a counter sampled after the failed scan (atomic wait/notify)", "a holder exits between the last failed probe and the load of the counter: lost wake-up"),
 "C14-2": ("linear probing replaced by double hashing with an odd step", "capacity with an odd prime factor and an unlucky thread-id hash: the probe sequence never visits the free slot"),
 "C15-1": ("~HeartBeater moves id_ into a local that dies after the flag store", "exiting thread preempted between the store and the closing brace while a new thread claims the ID"),
 "C15-2": ("CollectProtectedEpochs pins the heartbeat with weak_ptr::lock() while reading the slot", "a thread exits while the coordinator holds the locked pointer: heartbeat unexpired after exit and after the ID is re-issued"),
 "C16-1": ("EpochGuard move assignment skips LeaveEpoch when source and destination share a slot", "self move-assignment of a live guard: protection never released"),
 "C16-2": ("EpochGuard move assignment implemented by swap", "a named source of a different slot: the old protection lives on in the moved-from object"),
 "C17-1": ("GetProtectedEpochs looks the list up with the current global epoch instead of the guard's epoch", "worker delayed between guard creation and lookup while the coordinator forwards"),
 "C17-2": ("CreateEpochGuard slow path enters the epoch before publishing the slot's heartbeat", "first use of the manager by a thread, stalled for two forwards across a node boundary"),
 "C18-1": ("approximate normalisation: early exit of the trapezoid loop when a term is < 1e-5 of the sum", "n >= 10^6 and a skew near 1"),
 "C18-2": ("denom_ replaced by a cached reciprocal", "specific (n, alpha): last bin is 1-2^-53 instead of 1"),
 "C18-3": ("n <= 100 became n < 100 (same site as C06-1)", "exactly n = 100"),
 "C19-1": ("ZipfDistribution builds its CDF lazily on first use (mutable table)", "a second thread overlaps the first ever call on a shared generator"),
 "C19-2": ("ApproxZipfDistribution range check moved onto the (wrapping) bin count", "unsigned type and max <= min-2: no exception"),
 "C20-1": ("RemoveOutDatedLists only when the minimum protected epoch changes node", "a guard pinned across two node boundaries: intermediate nodes never removed"),
 "C20-2": ("unlinked nodes parked in retired_nodes_ until the next forward; destructor not updated", "manager destroyed right after a forward that unlinked a node: leak"),
 "C20-3": ("CollectProtectedEpochs builds the list in a fixed array of kMaxThreadNum entries", "at least capacity-1 threads pinned at once: one pinned epoch silently dropped"),
}
for sid, (summ, needs) in M.items():
    p = os.path.join(V, "seeded", sid, "meta.json")
    if not os.path.exists(p):
        print("missing", sid); continue
    m = json.load(open(p))
    m["summary"] = summ
    m["needs"] = needs
    m["breaks_property"] = m.get("target_property")
    m["what_was_run"] = ("seeded/verify.sh of the sub-agent re-run by the framework author in a scratch worktree (see verify_result.txt): repository test suite with the change, "
                         "demonstration with and without the change; then tools/seedmatrix.py (see results.json): patch applied to /repo, checks run, patch reverted")
    json.dump(m, open(p, "w"), indent=1)
print("ok")

M2 = {
 "C01-r2.1": ("PessimisticLock::LockS with fetch_add + roll-back (as C01-1)", "writer store lands between the reader's fetch_add and fetch_sub"),
 "C01-r2.2": ("CompositeGuard move constructor = default (moved-from keeps has_lock_)", "PrepareRead takes the shared fallback and the guard is move-constructed: S released while the live guard claims it"),
 "C01-r2.3": ("MCSLock::UnlockSIX as tail resets the lock word first and waits for preceding sharers afterwards", "S granted, SIX on top, SIX released while the reader is active and nobody queued, then a new X"),
 "C02-r2.1": ("PessimisticLock::LockS fetch_add/roll-back against plain-store unlocks", "writer acquires between check and fetch_add and releases before the roll-back: word becomes all ones"),
 "C02-r2.2": ("XGuard takes the 64-bit word; ver + 1U becomes 64-bit arithmetic", "version 2^32-1: phantom S holder"),
 "C02-r2.3": ("MCSLock::UnlockX tail branch: one strong CAS, else fetch_xor(kXLock)", "X/SIX request enqueues between the failed CAS and the fetch_xor: no hand-off"),
 "C03-r2.1": ("XGuard move assignment releases the overwritten lock with the incoming guard's new_ver_", "move assignment onto an owning guard with colliding versions: old version republished"),
 "C03-r2.2": ("PrepareRead slow path accepts the word reloaded by a failed CAS (mask includes X)", "a writer takes X between the reader's load and CAS: version handed out during X"),
 "C03-r2.3": ("OptGuard::VerifyVersion compares the whole 64-bit word with the 32-bit version", "an S or SIX holder is present: spurious failure"),
 "C04-r2.1": ("slot registration keyed on std::thread::id instead of heartbeat.expired()", "the OS reuses the id of a joined thread: successor skips registration, keeps the dead heartbeat"),
 "C04-r2.2": ("protected list pre-sized to kMaxThreadNum entries including the two reserved ones", "capacity-1 guards alive at once: highest slots dropped"),
 "C04-r2.3": ("EpochGuard caches the epoch sampled before EnterEpoch", "a forward between the sample and EnterEpoch: guard reports e but pins e+1"),
 "C05-r2.1": ("claim CAS with expected value outside the loop (as C05-1)", "two consecutive lost claim races"),
 "C05-r2.2": ("flag table rounded up to a power of two, index returned as ID", "capacity not a power of two: ID out of range"),
 "C05-r2.3": ("IDs handed out from a lock-free stack of released IDs without version tag", "ABA: a claim preempted between reading head and successor while two others claim and one exits (>= 4 threads after a first wave)"),
 "C06-r2.1": ("approximate class: constants folded into one scale_ factor", "last breakpoint below the largest variate for ~2% of (n, alpha): returns max+1"),
 "C06-r2.2": ("hand-written copy assignment skips the table when shape matches", "moved-from object copy-assigned with the same shape: empty table, operator() throws"),
 "C06-r2.3": ("closed-form shortcut ceil(u*n)-1 for alpha == 0", "engine output 0 or within ulps of a breakpoint"),
 "C07-r2.1": ("PessimisticLock SGuard move assignment skips the release for guards of the same lock", "one owning S guard move-assigned over another owning S guard of the same lock"),
 "C07-r2.2": ("XGuard::new_ver_ 64 bit (as C02-2)", "version 2^32-1"),
 "C07-r2.3": ("MCS DowngradeToSIX tail case: check then single fetch_xor", "LockX/LockSIX enqueues between check and xor: converted grant never handed over"),
 "C08-r2.1": ("PessimisticLock::UpgradeToX two-phase: fetch_or(X, acquire), relaxed wait, relaxed fetch_xor", "SIX holder upgrades while a reader is still inside"),
 "C08-r2.2": ("OptGuard::TryLock* CAS success order relaxed", "a complete LockS..UnlockS by another thread between load and CAS"),
 "C08-r2.3": ("MCS LockX/LockSIX: fast-path CAS acquire, then exchange relaxed + conditional fence", "two overlapping readers, one leaving before the writer enqueues and one after"),
 "C09-r2.1": ("XGuard move assignment copies rhs first and unlocks with rhs's new_ver_", "move assignment over an owning guard with a different pending version"),
 "C09-r2.2": ("DowngradeToSIX as one fetch_add of the version difference", "new version numerically smaller than the acquisition version: carry into the S counter"),
 "C09-r2.3": ("LockX fast path + slow path lambda with its own cur: XGuard built from the stale outer cur", "LockX called while another X section is in flight: stale GetVersion, duplicate version"),
 "C10-r2.1": ("LockSIX by fetch_or + DowngradeToSIX by fetch_xor (two sites)", "a LockSIX fetch_or loses to LockX, then the downgrade xor frees the lock"),
 "C10-r2.2": ("OptimisticLock::UpgradeToX: drain wait then fetch_xor", "a reader enters between the drain load and the flip"),
 "C10-r2.3": ("MCSLock::LockS tail-moved branch waits only for X", "holder in X/SIX chain, reader queued behind, another request behind the reader, then UpgradeToX"),
 "C11-r2.1": ("LockS fast path: 'no writer' decision not re-checked after a failed CAS", "X enqueues between the sharer's load and CAS"),
 "C11-r2.2": ("LockX links its node (word 0) before adding the inherited bits", "a sharer reads the new node between link and fetch_add"),
 "C11-r2.3": ("LockS phase-1 wait predicate: word differs from the value my CAS installed", "a second sharer joins the same tail: first sharer passes the writer"),
 "C12-r2.1": ("LockS takes its node lazily; join path no longer returns it", "LockS on a free lock loses the CAS race and joins: node leaked"),
 "C12-r2.2": ("per-thread node cache becomes an unbounded vector", "writer takes X, reader joins while X held, writer releases first, repeatedly: live nodes grow"),
 "C12-r2.3": ("UnlockX/UnlockSIX store 0 into their node after handing it over", "group with S joiners and a successor: write into recycled/freed node or wiped link"),
 "C13-r2.1": ("PrepareRead fallback tests only the S counter", "word SIX|version: shared grant stacked on the SIX holder and never released"),
 "C13-r2.2": ("CompositeGuard move assignment takes over rhs first and releases afterwards (wrong lock)", "owning guard reassigned to a guard of a different lock"),
 "C13-r2.3": ("owning CompositeGuard releases with a plain store of the version", "another S/SIX taken while it is alive and the composite guard released first"),
 "C14-r2.1": ("~HeartBeater frees the slot only if a weak_ptr taken before reset() is expired", "an observer holds GetHeartBeat().lock() while the owner exits"),
 "C14-r2.2": ("oversubscribed threads sleep on a counter read after the failed sweep (wait/notify)", "lost wake-up"),
 "C14-r2.3": ("scan upward from a global _min_free published by a plain store", "an exit of a lower ID between the claimer's exchange and its store: slot never scanned again"),
 "C15-r2.1": ("ID reservation moved to its own thread_local IDHolder", "thread calls GetHeartBeat() before GetThreadID(): destructor order releases the ID first"),
 "C15-r2.2": ("thread_local cache of the assigned ID re-arms hb after its destruction", "a thread_local object constructed earlier uses the ID manager in its destructor (use of a destroyed block-scope thread_local: UB)"),
 "C15-r2.3": ("CollectProtectedEpochs uses lock() instead of expired()", "thread exit and re-claim of the ID during one scan iteration"),
 "C16-r2.1": ("nested-guard support: LeaveEpoch restores the previous entered_ value", "two overlapping guards of one thread released non-LIFO (re-arm idiom)"),
 "C16-r2.2": ("ForwardGlobalEpoch calls the public GetProtectedEpochs() for a capacity hint", "every ID held by a live thread: the coordinator spins for ever"),
 "C16-r2.3": ("swap-based move assignment of EpochGuard", "move assignment from a named guard that stays in scope"),
 "C17-r2.1": ("EnterEpoch straight-line: stores the newer epoch without validating again", "forward across a node boundary between load and re-check, then a stall of 512+ forwards"),
 "C17-r2.2": ("ProtectedNode::GetProtectedEpochs walks one node only (if instead of while)", "worker stalled while two new nodes are created and the middle one stays linked"),
 "C17-r2.3": ("scan_end_ bound raised/shrunk by CAS", "a thread registers inside the stale tail while the coordinator is between scanning the slot and shrinking"),
 "C18-r2.1": ("cached reciprocal of the normalisation constant", "last bin 1-2^-53 for ~1/9 of (n, alpha)"),
 "C18-r2.2": ("n <= 100 branch merged into the general path", "2 <= n <= 99: table normalised for 100 bins"),
 "C18-r2.3": ("exact class scales every weight by n^alpha", "alpha*log10(n) > 308: inf/NaN"),
 "C19-r2.1": ("lazy CDF construction (as C19-1)", "first use of a shared generator is concurrent"),
 "C19-r2.2": ("thread_local probe cache keyed by the generator's address", "parameters at that address change (assignment / destroy+construct) and it is sampled again by the same thread"),
 "C19-r2.3": ("range check through a non-template int64_t helper", "uint64_t min >= 2^63 and max < 2^63"),
 "C20-r2.1": ("RemoveOutDatedLists frees only what lies behind the minimum protected node", "one guard held across many ranges: intermediate nodes never retired"),
 "C20-r2.2": ("retired node parked in spare_node_ (slot assumed empty)", "a node retires while the spare slot is occupied: leak"),
 "C20-r2.3": ("thread_local registered-manager cache keyed by the manager's address", "manager destroyed and a new one constructed at the same address while a worker thread survives"),
}
for sid, (summ, needs) in M2.items():
    p = os.path.join(V, "seeded", sid, "meta.json")
    if not os.path.exists(p):
        print("missing", sid); continue
    m = json.load(open(p))
    m["summary"] = summ
    m["needs"] = needs
    m["breaks_property"] = m.get("target_property")
    m["round"] = 2
    m["what_was_run"] = ("seeded/verify.sh of the sub-agent re-run by the framework author in a scratch worktree (see verify_result.txt): repository test suite with the change, "
                         "demonstration with and without the change; then tools/seedmatrix.py (see results.json): patch applied to /repo, checks run, patch reverted")
    json.dump(m, open(p, "w"), indent=1)
print("round 2 ok")

M3 = {
 "C02-r3.1": ("MCSLock::LockX/LockSIX publish the queue link before merging the inherited state into their node (as C02-1)", "an S predecessor runs UnlockS between the successor's link and its merge: node word underflows, successor waits for ever"),
 "C02-r3.2": ("PessimisticLock::LockS as load, fetch_add, fetch_sub roll-back against whole-word unlock stores (as C01-1)", "a writer takes X between the reader's load and fetch_add and releases before the roll-back: word becomes all ones"),
 "C03-r3.1": ("OptGuard::TryLockS: inner CAS-retry loop re-checks only the X bit, `acquired` flag replaces the version post-check", "a complete exclusive section between TryLockS's load and its first CAS: owning guard with a stale version"),
 "C03-r3.2": ("guard move assignments rewritten with std::exchange: XGuard::operator= releases the old lock with the source's new_ver_", "lock coupling over two locks (guard = child.LockX()) with ver(child)+1 == ver(parent): parent's X section commits without a version change"),
 "C04-r3.1": ("scan bound = largest thread ID bound so far, maintained by load-then-store (as C04-2)", "two threads bind their slots concurrently, the lower-ID thread preempted between load and store: higher slot never scanned"),
 "C04-r3.2": ("coordinator resets the slot's weak_ptr when it reads expired() (as C04-1)", "a new thread binds the slot and creates a guard between the expired() sample and the reset()"),
 "C08-r3.1": ("OptGuard::TryLock* CAS weakened from acquire to relaxed ('the load above has synchronised')", "a complete LockS/read/unlock of another thread between TryLockX's load and its CAS"),
 "C08-r3.2": ("MCSLock::UnlockS tail-group branch: CAS of a sharer that is not the last one weakened to relaxed", "two sharers in one tail group, the first leaves while the group is still the tail, then the last sharer unlocks and a LockX follows"),
 "C09-r3.1": ("'self-assignment safe' guard move assignments: XGuard::operator= copies new_ver_ from rhs before unlocking its old lock", "a live XGuard move-assigned with a guard of a different lock (or an empty guard) whose pending version differs"),
 "C09-r3.2": ("XGuard::new_ver_ becomes uint64_t computed as ver + 1UL (as C02-2)", "a default-increment X section starting at version 2^32-1: carry leaves a phantom S holder"),
 "C11-r3.1": ("MCSLock::UnlockX with sharers in the tail node's group: unconditional fetch_xor(kXLock) instead of the tail-checked CAS", "an X request swaps itself in between the releaser's read of the lock word and the fetch_xor: a later sharer is granted before it"),
 "C11-r3.2": ("MCSLock::UnlockSIX takes the successor from the lock word's tail pointer instead of waiting for the link", "an SIX request stalled between its exchange and its link while a later request is already the tail: the later one is granted first"),
 "C12-r3.1": ("LockS takes its node only when it starts a new reader group; unused node no longer returned to the cache (as C12-1)", "a LockS that saw the lock free loses the CAS race and joins the other group: node leaked"),
 "C12-r3.2": ("UnlockS treats the new tail in the lock word as its successor instead of waiting for the link", "an X/SIX requester preempted between its swap and its link: the last reader recycles the node, the delayed write lands on a recycled/freed node"),
 "C13-r3.1": ("PrepareRead fallback reuses the word refreshed by a failed CAS and accepts it when its X bit is clear", "a complete LockX/unlock between the fallback's load of a free word and its CAS: owning guard with no S grant in the word"),
 "C13-r3.2": ("CompositeGuard move assignment takes over rhs's state before releasing (old S released through the overwritten dest_)", "an owning guard of lock A move-assigned from a guard of a different lock B: A's grant leaks, B underflows"),
 "C17-r3.1": ("Epoch::EnterEpoch: single retry that adopts the newer global epoch without re-validating (as C17-r2.1)", "worker publishes 767, sees 768 on its validating load, then stalls for 257+ forwards before its second store"),
 "C17-r3.2": ("coordinator scans only slots below a high-water mark raised by load + plain store", "two threads registering concurrently, the lower-ID thread preempted between load and store; then the epoch passes two node boundaries"),
 "C20-r3.1": ("manager scans only registered slots and drops an exited thread's slot by swap-remove without re-checking the moved entry", "an earlier-registered thread exits while the last-registered thread holds a guard: the next forward omits that guard's epoch"),
 "C20-r3.2": ("unlinked nodes parked in retired_lists_ until the next forward; destructor walks only the main chain (as C20-2)", "manager destroyed right after a forward that unlinked nodes: leak"),
}
for sid, (summ, needs) in M3.items():
    p = os.path.join(V, "seeded", sid, "meta.json")
    if not os.path.exists(p):
        print("missing", sid); continue
    m = json.load(open(p))
    m["summary"] = summ
    m["needs"] = needs
    m["breaks_property"] = m.get("target_property")
    m["round"] = 3
    m["what_was_run"] = ("seeded/verify.sh of the sub-agent re-run by the framework author in a scratch worktree (see verify_result.txt): repository test suite with the change, "
                         "demonstration with and without the change; then tools/seedmatrix.py (see results.json): patch applied to a scratch worktree of /repo, checks run with VERIF_REPO pointing there, patch reverted")
    json.dump(m, open(p, "w"), indent=1)
print("round 3 ok")

M4 = {
 "C01-r4.1": ("PessimisticLock::LockS registers with fetch_add and withdraws with fetch_sub; untouched UnlockX/DowngradeToSIX store the whole word", "the reader preempted before its fetch_add and again before its fetch_sub, with an X unlock or downgrade in between: the roll-back borrows the X/SIX bit away"),
 "C01-r4.2": ("OptGuard::TryLockS/SIX/X give up when their CAS loses against a writer; the code after the loop decides 'granted' from version equality", "requester preempted between its load and its CAS while another thread acquires X: owning guard with nothing acquired"),
 "C05-r4.1": ("ID table of 8-bit reservation counters: claim with fetch_add(1)==0, losers withdraw with fetch_sub, destructor stores 0", "a loser's +1 sits in the counter while the owner exits and a new owner claims; the late -1 clears the new owner's reservation (4 parties, 3 preemptions)"),
 "C05-r4.2": ("bool array replaced by a 64-bit bitmap searched a word at a time; range check only for the first candidate", "capacity not a multiple of 64 and two threads racing for the last in-range free bit: out-of-range ID"),
 "C06-r4.1": ("ZipfDistribution::UpdateCDF sums tail-first and drops the forced last entry = 1.0", "(bin count, alpha) pairs whose last entry lands at 1-2^-52 and an engine output in the top ulps: returns max+1"),
 "C06-r4.2": ("ApproxZipfDistribution::operator() fast path runs lower_bound over the whole 100-entry table", "single-bin generators (default constructed, min == max): table {1.0, 0, ...}: returns 100"),
 "C07-r4.1": ("MCSLock UpgradeToX/DowngradeToSIX hand ownership over only at the return of the tail-node case", "a successor already queued behind the converting guard: the consumed guard stays owning, grant released twice"),
 "C07-r4.2": ("PrepareRead back-off fallback narrowed from kAllLockMask to kSMask while the return expression still tests kAllLockMask", "reader past kRetryNum polls sees an SIX holder and no reader: takes S but returns a non-owning guard, grant never released"),
 "C10-r4.1": ("PessimisticLock: LockS with fetch_add/fetch_sub roll-back, UnlockX as fetch_and; DowngradeToSIX still stores kSIXLock", "reader preempted after its load and before its roll-back around LockX + DowngradeToSIX: SIX flag cleared, second SIX granted"),
 "C10-r4.2": ("OptimisticLock::LockX writer-preferring: claims X with fetch_or after a load-check, then waits for S/SIX to clear", "LockSIX slips in between load and fetch_or, then UpgradeToX flips both flags: upgrader and pending writer both hold X"),
 "C14-r4.1": ("waiters sleep with atomic wait on a release counter read after the probing round", "a holder exits between the prober's last slot check and the load of the counter: lost wake-up"),
 "C14-r4.2": ("~HeartBeater parks its ID (flag still set) in a one-element recycled-ID cache read only before the probe loop", "a thread already inside the probe loop never sees the parked ID: spins for ever"),
 "C15-r4.1": ("~HeartBeater moves the shared_ptr into a local and clears the reservation flag first (as C15-1)", "exiting thread preempted between the store and the closing brace while another thread claims the ID"),
 "C15-r4.2": ("flag array replaced by a lock-free LIFO free list of IDs (ABA on the head, as C05-r2.3)", "four threads, one preemption, one thread exit: a later claimer gets an ID of a running thread whose heartbeat is unexpired"),
 "C16-r4.1": ("re-entrant guards via a per-thread nesting counter; move assignment skips LeaveEpoch when both guards share an Epoch", "outer = std::move(inner) or a self-move: one nesting level leaks, the pin is never released"),
 "C16-r4.2": ("CollectProtectedEpochs gathers epochs in a file-scope buffer shared by all EpochManager instances", "two manager instances, one coordinator preempted inside its scan while the other manager's coordinator forwards"),
 "C18-r4.1": ("exact class: multiplication fast path for skews 0,1,2,3 computes i*i*i in uint64_t", "alpha == 3.0 exactly and more than 2,642,245 bins (gross from 4,194,304 bins)"),
 "C18-r4.2": ("approximate class: trapezoid width max(100, n/10000) for the normalisation constant", "n above about 1.5 million and a mid-range skew: error 0.03 at n = 3*10^6"),
 "C19-r4.1": ("ApproxZipfDistribution::operator() memoises CDF values in a thread-local table tagged by the generator's address", "copy/move assignment onto a generator already sampled on that thread, or construction in reused storage"),
 "C19-r4.2": ("range check through a shared helper counting bins in int64_t (as C19-r2.3)", "uint64_t ranges with min >= 2^63 > max"),
}
for sid, (summ, needs) in M4.items():
    p = os.path.join(V, "seeded", sid, "meta.json")
    if not os.path.exists(p):
        print("missing", sid); continue
    m = json.load(open(p))
    m["summary"] = summ
    m["needs"] = needs
    m["breaks_property"] = m.get("target_property")
    m["round"] = 4
    m["what_was_run"] = ("seeded/verify.sh of the sub-agent re-run by the framework author in a scratch worktree (see verify_result.txt): repository test suite with the change, "
                         "demonstration with and without the change; then tools/seedmatrix.py (see results.json): patch applied to a scratch worktree of /repo, checks run with VERIF_REPO pointing there, patch reverted")
    json.dump(m, open(p, "w"), indent=1)
print("round 4 ok")
B = {
"B5-1":"PessimisticLock: LockS/LockSIX/LockX/UpgradeToX share one helper that first tries a single CAS without a prior load and retries on the value the failed CAS returned; UnlockX/DowngradeToSIX as fetch_and/fetch_xor; assertions",
"B5-2":"OptimisticLock: GetVersion and both VerifyVersion share a wait-for-no-X helper with a single-load fast path; per-iteration release fence becomes one acq_rel fence before the loop; TryLock* share one helper reusing the failed-CAS value",
"B5-3":"MCSLock: per-thread spare node moves from unique_ptr to a nested SpareNode holder (Peek/Take/Put); LockS detaches the spare only after the CAS that installs it as tail succeeds",
"B5-4":"MCSLock: memory orders strengthened only (exchange/CAS/fetch_* to acq_rel, relaxed loads and CAS-failure orders to acquire)",
"B6-1":"IDManager: reservation table becomes a 64-bit atomic bitmap (word-wise scan, lowest free bit claimed with fetch_or, released with fetch_and): different probing order",
"B6-2":"IDManager: hot spin when every ID is taken replaced by an event-count protocol on a release counter (C++20 wait/notify, counter read before the sweep)",
"B6-3":"EpochManager::CollectProtectedEpochs reads the pinned epoch before the heartbeat, skips values already in the list, skips sort/unique for the two-element list",
"B6-4":"Epoch/EpochManager hardening: stronger memory orders, ForwardGlobalEpoch under a private std::mutex, assertions that cannot fire",
"B7-1":"Zipf: shared helper computes each weight once, sums in long double, normalises by one division (low-order CDF bits differ from HEAD)",
"B7-2":"Zipf: operator() uses lower-bound searches (std::lower_bound for the exact class, table/closed-form split for the approximate class)",
"B7-3":"Zipf: each pow computed once, trapezoid loop reuses the previous endpoint, range check before deriving members",
"B7-4":"ZipfDistribution gains a 257-entry guide table; operator() searches only the bins of the slot floor(u*256)",
}
for k, v in B.items():
    p = os.path.join(V, "benign", k, "meta.json")
    if os.path.exists(p):
        m = json.load(open(p)); m["summary"] = v; json.dump(m, open(p, "w"), indent=1)
M5 = {
 "C01-r5.1": ("PessimisticLock::LockS announces with fetch_add and withdraws with fetch_sub, UnlockX becomes fetch_xor; the untouched DowngradeToSIX still stores the whole word", "a reader between its failing fetch_add and its fetch_sub while the writer downgrades, a second reader gets S, the late fetch_sub erases its count, UpgradeToX succeeds with the reader inside"),
 "C01-r5.2": ("OptGuard::TryLockS/SIX/X folded into one helper that sets bits with `| kLockBits`; kSLock is a counter unit, so TryLockS counts only when the sharer count is even", "an odd number of S grants held, TryLockS succeeds without changing the word and releases: the first sharer is unrecorded, LockX is granted"),
 "C02-r5.1": ("OptimisticLock::XGuard old_ver_/new_ver_ widened to uint64_t (no wrap at 2^32)", "an exclusive section starting at version 2^32-1: the carry lands in the shared counter, later X requests wait for ever"),
 "C02-r5.2": ("PessimisticLock::LockS: load pre-check, one fetch_add, roll back with fetch_sub; the untouched UnlockX/DowngradeToSIX blind stores wipe the provisional increment", "writer's CAS between the reader's load and fetch_add, writer's release store before the reader's fetch_sub: word becomes all ones"),
 "C03-r5.1": ("SIXGuard caches the lock version (new GetVersion()), UpgradeToX builds the X guard from the cache; the untouched move assignment copies only dest_", "a SIX guard that got its grant by move assignment, then UpgradeToX: the section publishes stale+1, possibly the current version again"),
 "C03-r5.2": ("OptGuard::TryLockS joins existing sharers with an unconditional fetch_add instead of the CAS", "the last other reader releases and a writer takes X between the load and the fetch_add"),
 "C04-r5.1": ("ForwardGlobalEpoch scans only the first scan_limit_ slots; the limit is shrunk by CAS when trailing owners have exited", "a thread re-using an exited thread's ID registers inside the expired trailing part between the scan and the shrinking CAS"),
 "C04-r5.2": ("CreateEpochGuard caches (manager address, slot) in thread_local variables and skips the heartbeat check", "a manager destroyed and a new one constructed at the same address while the thread lives: its heartbeat is never installed"),
 "C05-r5.1": ("~HeartBeater publishes the released ID as a hint, GetHeartBeater takes the hint with a plain store(true)", "a thread already probing claims the freed slot before the hint is published; the next thread takes the hint: two owners"),
 "C05-r5.2": ("reservation array packed into 64-bit bitmap words; the release mask is computed in 32-bit unsigned", "more than 32 IDs: releasing an ID below 32 also clears bits 32..63 of the word; later threads get IDs of running threads"),
 "C06-r5.1": ("both binary searches folded into component::SearchBin with positions in IntType", "32-bit IntType and more than 2^31 (2^30) bins: the midpoint wraps, operator() never returns or throws out_of_range"),
 "C06-r5.2": ("ApproxZipfDistribution::GetCDF computes GetPowerSum(id+1)*coef+base with precomputed constants instead of GetHarmonicNum(id+1)/denom_", "about 4% of (n, alpha) pairs: GetCDF(last) = 1-2^-52 and an engine output in the top 2^11: returns max+1"),
 "C07-r5.1": ("PessimisticLock guard move assignments return early when dest_ == rhs.dest_ (meant as self-assignment test)", "two owning SGuards of the same lock, a = std::move(b): nothing released, b still owns"),
 "C07-r5.2": ("PrepareRead back-off path: strong CAS, a failed CAS accepted unless the refreshed word shows X; 'I hold S' decided from the last observed word", "reader in the back-off path loads a free word, a writer completes a whole X cycle before its CAS: owning guard without a grant"),
 "C08-r5.1": ("MCSLock::LockX: uncontended CAS fast path; the tail exchange of the contended path goes from acquire to release", "two S holders, one unlocks, a writer queues, the other unlocks: the first reader's section and the writer's are unordered"),
 "C08-r5.2": ("CompositeGuard move constructor = default (source keeps has_lock_)", "PrepareRead took its fallback S lock, the guard is move-constructed and the source destroyed while the target is in use"),
 "C09-r5.1": ("guard move constructors delegate to the ordinary constructors; XGuard's resets new_ver_ to old_ver_+1", "LockX, SetVersion(v), move-construct the guard, release: publishes old+1 instead of v"),
 "C09-r5.2": ("SIXGuard::GetVersion feature: ver_ cached, UpgradeToX uses it; move assignment leaves it stale", "move assignment into an existing SIX guard, then UpgradeToX: XGuard::GetVersion stale, release publishes stale+1"),
 "C10-r5.1": ("OptimisticLock::SIXGuard::UpgradeToX: read-only wait for the shared counter, then unconditional fetch_xor(kXMask)", "a LockS/TryLockS CAS lands between the last load and the fetch_xor"),
 "C10-r5.2": ("MCSLock wait loops factored into helpers; the second-stage wait of LockS gets kXLock instead of kXMask", "A holds SIX, R queues S behind it, W enqueues X/SIX: R is granted while A holds SIX, A's UpgradeToX returns with R inside"),
 "C11-r5.1": ("MCSLock pointer field widened to 52 bits, the shared counter shrinks to 10 bits", "exactly 1024 LockS requests registered on one tail node: the counter wraps into the SIX bit"),
 "C11-r5.2": ("MCSLock::UnlockX tail branch hands over with fetch_xor(kXLock) and compensates with a second fetch_xor if the tail had moved", "holder with a queued sharer, a second writer becomes tail between the load and the fetch_xor, a late LockS arrives before the compensation (4 threads, 3 preemptions)"),
 "C12-r5.1": ("MCSLock::LockS fetches its node lazily whenever the 'lock is free' branch runs", "lock word free -> held -> free between consecutive CAS attempts of one LockS: the first node leaks"),
 "C12-r5.2": ("one-slot tls_node_ replaced by an uncapped thread-local free list", "asymmetric reclamation (opener/joiner release order) or one thread holding several locks: live nodes grow without bound"),
 "C13-r5.1": ("PrepareRead slow path no longer retries a failed CAS, only re-checks X on the refreshed word", "a second writer completes a whole X cycle between the reader's load and its CAS: owning guard without a grant, counter underflow at release"),
 "C13-r5.2": ("CompositeGuard move assignment takes over rhs first, then releases through the new dest_", "an owning guard overwritten by a guard of a different lock: old grant never released, UnlockS on the wrong lock"),
 "C14-r5.1": ("the reservation flag is cleared by a custom deleter of the heartbeat shared_ptr, ~HeartBeater = default", "another thread holds a lock()ed heartbeat when the owner exits: the ID stays reserved for ever"),
 "C14-r5.2": ("a thread that probed the whole table sleeps on a release counter (wait/notify); the counter is read after the scan", "a holder exits between the probe of its slot and the load of the counter: lost wake-up"),
 "C15-r5.1": ("CollectProtectedEpochs takes heartbeat.lock() instead of testing expired()", "a thread exits while the coordinator holds the strong reference: heartbeat alive after exit and at ID reuse"),
 "C15-r5.2": ("bitmap table with a 32-bit release mask (as C05-r5.2)", "more than 32 IDs, a low ID released: IDs 32..63 of the word handed out while their owners run"),
 "C16-r5.1": ("re-entrant guards: nesting counter in Epoch; EpochGuard move assignment skips LeaveEpoch when both point at the same Epoch", "guard = manager.CreateEpochGuard() on a live guard leaks a nesting level: the epoch stays pinned after every guard is gone"),
 "C16-r5.2": ("EpochManager recycles ProtectedNodes; Reuse resets only the header, CollectProtectedEpochs only appends", "at least 1024 forwards on one manager: published lists contain stale epochs, min falls back"),
 "C17-r5.1": ("CollectProtectedEpochs copies through partial_sort_copy into a destination of kMaxThreadNum entries", "kMaxThreadNum-1 or more threads inside guards during one forward: the oldest protected epochs are dropped, nodes freed under live guards"),
 "C17-r5.2": ("atomic `registered` flag per slot: CreateEpochGuard registers on !registered, only the coordinator's scan clears it", "a new thread with the ID of an exited one takes a guard before any forward: never registered, its list node is freed two boundaries later"),
 "C18-r5.1": ("GetHarmonicNum keeps the upper Chlebus term of the previous call in thread_locals keyed by position only", "two approximate distributions with different alpha scanned in lockstep, or an (n+1)-bin object constructed right after scanning an n-bin one"),
 "C18-r5.2": ("trapezoid count capped at 10000 (skip = max(100, n/10000))", "more than 10^6 bins and alpha around or above 1: first 100 bins drift by up to 0.06"),
 "C19-r5.1": ("range check through GetBinNum computing the width in signed 64 bits", "inverted 64-bit ranges with min - max > 2^63 are accepted"),
 "C19-r5.2": ("operator() caches the first seven search levels in a thread_local table keyed by `this`", "a different distribution later occupies the same storage (assignment, emplace, stack slot reuse)"),
 "C20-r5.1": ("RemoveOutDatedLists parks one unlinked node in a spare slot for reuse", "a second node retires before the next boundary: the first is leaked for good, also past the destructor"),
 "C20-r5.2": ("tls_end_ high-water mark of used slots updated by check-then-store", "two threads register concurrently (hi loads, lo loads, hi stores, lo stores): the higher slot is never scanned"),
}
for sid, (summ, needs) in M5.items():
    p = os.path.join(V, "seeded", sid, "meta.json")
    if not os.path.exists(p):
        print("missing", sid); continue
    m = json.load(open(p))
    m["summary"] = summ
    m["needs"] = needs
    m["breaks_property"] = m.get("target_property")
    m["round"] = 5
    m["what_was_run"] = ("seeded/verify.sh of the sub-agent re-run by the framework author in a scratch worktree (see verify_result.txt): repository test suite with the change, "
                         "demonstration with and without the change; then tools/seedmatrix.py (see results.json): patch applied to a scratch worktree of /repo, checks run with VERIF_REPO pointing there, patch reverted")
    json.dump(m, open(p, "w"), indent=1)
print("round 5 ok")
B5 = {
"B8-1":"Pessimistic/OptimisticLock: lock words re-laid-out (pessimistic: X bit 0, SIX bit 1, counter bits 2..63; optimistic: X 32, SIX 33, counter 34..63), static_asserts",
"B8-2":"Pessimistic/OptimisticLock: Lock*/UpgradeToX through one ReplaceWithBackoff helper that reuses the word a failed CAS returned; pessimistic starts from a 'free' guess (single CAS, no load)",
"B8-3":"Pessimistic/OptimisticLock: memory orders strengthened only (acquire pre-check loads, acq_rel CASes and unlock RMWs, extra fences)",
"B8-4":"Pessimistic/OptimisticLock: Unlock*, guard destructors and move assignments inline in the headers, constants as private static constexpr members, one VerifyVersion wait helper",
"B9-1":"MCSLock: memory orders strengthened only (release node initialisation, acq_rel exchange/CAS/fetch_*, acquire loads)",
"B9-2":"MCSLock: wait loops and enqueue/release/convert bodies factored into helpers and a template; goto removed",
"B9-3":"MCSLock: lock word re-laid-out (S counter bits 63-49, SIX 48, X 47, pointer 46-0), static_asserts, design doc table updated",
"B9-4":"MCSLock: uncontended fast paths (one strong CAS before the exchange / before the unlock loop), successor link with fetch_or",
"B10-1":"IDManager: per-ID atomic_bool array becomes a 64-bit bitmap tested bit by bit (same probe order), fetch_or(acquire)/fetch_and(release)",
"B10-2":"thread: memory orders strengthened only (Epoch enter/leave, global/min epoch, ID flags)",
"B10-3":"EpochManager::CollectProtectedEpochs gathers in a local scratch vector, skips trivial duplicates and the sort for two entries, publishes with assign",
"B10-4":"thread: Epoch/EpochGuard members moved into the headers, HeartBeater defined in the source file",
"B11-1":"Zipf: both binary searches through one component::SearchBin template, exact-table construction through two file-local helpers (std::span)",
"B11-2":"Zipf: every i^alpha computed once, CDF converted in place, trapezoid loop reuses the previous endpoint (bit-identical)",
"B11-3":"Zipf: private members reordered hot/cold, alignas(64) group, initialiser lists follow the new order",
"B11-4":"Zipf: std::log/expm1/pow with explicit casts, max < min rejected in the first member initialiser, assertions, defensive clear()",
}
for k, v in B5.items():
    p = os.path.join(V, "benign", k, "meta.json")
    if os.path.exists(p):
        m = json.load(open(p)); m["summary"] = v; json.dump(m, open(p, "w"), indent=1)
