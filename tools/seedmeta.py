#!/usr/bin/env python3
"""Fills seeded/<id>/meta.json (what the change does / what it needs) from the sub-agents' reports."""
import json, os
V = os.path.dirname(os.path.dirname(os.path.abspath(__file__)))
M = {
 "C01-1": ("PessimisticLock::LockS: load + fetch_add with roll-back (fetch_sub) instead of CAS; the untouched UnlockX/DowngradeToSIX stores wipe the transient increment and the roll-back corrupts the word", "a writer locks and unlocks between a reader's load and its roll-back (3+ preemptions); conflict needs 4-5"),
 "C01-2": ("MCSLock::LockS second wait loop masks only X (S queued behind SIX is granted); UpgradeToX then grants X while that reader holds S", "three parties: SIX holder, S waiter, a later X moving the tail, then UpgradeToX"),
 "C01-3": ("OptimisticLock::SIXGuard::UpgradeToX: wait-for-no-readers then unconditional fetch_xor instead of CAS", "an S request lands between the check and the fetch_xor"),
 "C02-1": ("MCSLock::LockX/LockSIX link their node to the predecessor before fixing up its state word", "an S holder among the predecessors releases between the link and the fix-up: X bit stays set for ever"),
 "C02-2": ("OptimisticLock::XGuard::new_ver_ widened to 64 bit (ver + 1UL)", "an exclusive section that begins at version 2^32-1 publishes 1<<32 = a phantom shared holder; later X requests wait for ever"),
 "C03-1": ("OptGuard::TryLockSIX acquires with fetch_or instead of a whole-word CAS", "a complete exclusive section of another thread between the load and the fetch_or: owning guard with a stale version"),
 "C03-2": ("XGuard::DowngradeToSIX uses fetch_xor(kXMask) instead of storing new_ver|SIX", "an exclusive section ending in a downgrade publishes no new version; SetVersion dropped"),
 "C04-1": ("CollectProtectedEpochs resets the slot's weak_ptr when it is expired", "a new thread registers its heartbeat in that slot between the expired() test and the reset(): later forwards skip its guard"),
 "C04-2": ("high-water mark tls_bound_ of used IDs (load then store) limits the scan", "two threads register for the first time concurrently and the lower ID's store lands last: the higher slot is never scanned"),
 "C05-1": ("claim with compare_exchange_strong whose expected variable lives outside the probe loop", "one thread loses two load-to-CAS races in a row: CAS(true->true) succeeds on an occupied slot (3 threads, 4 preemptions)"),
 "C05-2": ("probe loop bounded to one lap, SetID unconditional", "more requesters than IDs alive at once: the extra thread adopts an occupied ID"),
 "C06-1": ("ApproxZipfDistribution::UpdateCDF: n <= 100 became n < 100", "exactly 100 bins: last CDF entry not pinned, a variate in the top ulps returns max+1"),
 "C06-2": ("ZipfDistribution::operator(): fast path for alpha == 0 computing floor(u*n)", "alpha exactly 0, bin count not a power of two, u within a few ulps of a breakpoint"),
 "C07-1": ("MCSLock conversions rewritten with std::exchange; the successor path of UpgradeToX keeps dest_ in the source guard", "another thread is already queued behind the SIX holder when UpgradeToX is called: grant released twice"),
 "C07-2": ("OptimisticLock guard move assignments implemented by swap", "move-assigning a named owning guard over another owning guard: the moved-from guard still owns, old grant not released at the assignment"),
 "C08-1": ("PessimisticLock::UnlockS back to memory_order_relaxed", "an S section that only reads followed by an X section of another thread: no happens-before edge"),
 "C08-2": ("PessimisticLock::LockX: acquire moved from the CAS to the preceding load", "a complete section of another thread between the load and the CAS (word returns to 0)"),
 "C09-1": ("XGuard::new_ver_ widened to 64 bit (same change as C02-2)", "exclusive section starting at version 2^32-1"),
 "C09-2": ("XGuard move assignment (std::exchange rewrite) no longer copies new_ver_", "an exclusive grant that is move-assigned and then ended through the assigned-to guard publishes a stale version"),
 "C10-1": ("PessimisticLock::UpgradeToX: spin until word == SIX, then fetch_xor", "a LockS CAS lands between the check and the fetch_xor: upgrade returns with a reader inside"),
 "C10-2": ("MCSLock::DowngradeToSIX successor path xors kXLock instead of kXMask", "a SIX/X request queued behind the X holder before the downgrade is granted while the SIX grant is live"),
 "C11-1": ("MCSLock::LockS 'tail moved' branch polls the predecessor node instead of the successor's word", "an S queued behind a waiting X, then another X/SIX enqueues: the S is granted before the earlier X"),
 "C11-2": ("LockX/LockSIX: node word starts at 0 and is linked before the predecessor's flags are merged", "the S waiter reads the new node's word between link and merge"),
 "C12-1": ("MCSLock::LockS takes its node lazily and no longer returns it on the join path", "two LockS race for a free lock, the loser joins the winner's group: its node leaks"),
 "C12-2": ("LockX/LockSIX link before copying the predecessor group's S count", "X/SIX holder with an S waiter releases inside that window: node recycled while a sharer still uses it, freed twice"),
 "C13-1": ("PrepareRead fallback: 'a version is enough' test narrowed from any lock bit to the SIX bit", "X holder through the optimistic attempts, then another thread holds S when the caller wakes: shared grant stacked on S and never released"),
 "C13-2": ("CompositeGuard move constructor = default (does not clear has_lock_ in the source)", "an owning composite guard that is move-constructed is released twice"),
 "C14-1": ("'do not spin while the table is full': waiters sleep on a counter sampled after the failed scan (atomic wait/notify)", "a holder exits between the last failed probe and the load of the counter: lost wake-up"),
 "C14-2": ("linear probing replaced by double hashing with an odd step", "capacity with an odd prime factor and an unlucky thread-id hash: the probe sequence never visits the free slot"),
 "C15-1": ("~HeartBeater moves id_ into a local that dies after the flag store", "exiting thread preempted between the store and the closing brace while a new thread claims the ID"),
 "C15-2": ("CollectProtectedEpochs pins the heartbeat with weak_ptr::lock() while reading the slot", "a thread exits while the coordinator holds the locked pointer: heartbeat unexpired after exit and after the ID is re-issued"),
 "C16-1": ("EpochGuard move assignment skips LeaveEpoch when source and destination share a slot", "self move-assignment of a live guard: protection never released"),
 "C16-2": ("EpochGuard move assignment implemented by swap", "a named source of a different slot: the old protection lives on in the moved-from object"),
 "C17-1": ("GetProtectedEpochs looks the list up with the current global epoch instead of the guard's epoch", "worker delayed between guard creation and lookup while the coordinator forwards"),
 "C17-2": ("CreateEpochGuard slow path enters the epoch before publishing the slot's heartbeat", "first use of the manager by a thread, stalled for two forwards across a node boundary"),
 "C18-1": ("approximate normalisation: early exit of the trapezoid loop when a term is < 1e-5 of the sum", "n >= 10^6 and a skew near 1"),
 "C18-2": ("denom_ replaced by a cached reciprocal", "specific (n, alpha): last bin is 1-2^-53 instead of 1"),
 "C18-3": ("n <= 100 became n < 100 (same site as C06-1)", "exactly n = 100"),
 "C19-1": ("ZipfDistribution builds its CDF lazily on first use (mutable table)", "a second thread overlaps the first ever call on a shared generator"),
 "C19-2": ("ApproxZipfDistribution range check moved onto the (wrapping) bin count", "unsigned type and max <= min-2: no exception"),
 "C20-1": ("RemoveOutDatedLists only when the minimum protected epoch changes node", "a guard pinned across two node boundaries: intermediate nodes never removed"),
 "C20-2": ("unlinked nodes parked in retired_nodes_ until the next forward; destructor not updated", "manager destroyed right after a forward that unlinked a node: leak"),
 "C20-3": ("CollectProtectedEpochs builds the list in a fixed array of kMaxThreadNum entries", "at least capacity-1 threads pinned at once: one pinned epoch silently dropped"),
}
for sid, (summ, needs) in M.items():
    p = os.path.join(V, "seeded", sid, "meta.json")
    if not os.path.exists(p):
        print("missing", sid); continue
    m = json.load(open(p))
    m["summary"] = summ
    m["needs"] = needs
    m["breaks_property"] = m.get("target_property")
    m["what_was_run"] = ("seeded/verify.sh of the sub-agent re-run by the framework author in a scratch worktree (see verify_result.txt): repository test suite with the change, "
                         "demonstration with and without the change; then tools/seedmatrix.py (see results.json): patch applied to /repo, checks run, patch reverted")
    json.dump(m, open(p, "w"), indent=1)
print("ok")
