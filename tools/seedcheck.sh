#!/bin/bash
# usage: tools/seedcheck.sh <patch> <prop> [<prop>...]   (applies the patch to /repo, runs the quick checks, reverts)
set -u
PATCH=$(readlink -f "$1"); shift
cd /repo || exit 2
if ! git diff --quiet; then echo "/repo is dirty"; exit 2; fi
git apply "$PATCH" || { echo "patch does not apply"; exit 2; }
trap 'cd /repo && git checkout -- . ' EXIT
cd /verif
TIER=${TIER:-quick}
for p in "$@"; do
  out=$(./check "$p" --tier "$TIER" 2>&1); rc=$?
  echo "== $p rc=$rc"
  echo "$out" | grep -E "VIOLATION|KNOWN|INTERNAL|tier=" | cut -c1-260 | head -6
  echo "$out" | grep -A1 "^VIOLATION" | grep -v "^VIOLATION" | grep -v "^--" | cut -c1-300 | head -3
done
