#!/usr/bin/env python3
"""Prints the per-tier coverage table of DESIGN.md section 3 from evidence/quick/*.json and evidence/thorough/*.json."""
import json, os
V = os.path.dirname(os.path.dirname(os.path.abspath(__file__)))


def runs_text(ev):
    c = ev["coverage"]
    if "runs" not in c:
        return "%d configurations, %d evaluations, %d classes" % (c.get("configurations", 0), c.get("evaluations", 0), c.get("distinct_nontrivial", 0))
    by = {}
    for r in c["runs"]:
        b = "∞" if r["bound"] < 0 else str(r["bound"])
        if r.get("dev"):
            b += "+dev"
        h = r["harness"].replace("PessimisticLock", "P").replace("OptimisticLock", "O").replace("MCSLock", "M").replace("IDManager/", "").replace("EpochManager/", "")
        by.setdefault((r["label"], b), []).append(h + ("(skipped)" if r.get("skipped") else "" if r["exhaustive"] else "*"))
    parts = []
    for (label, b), hs in by.items():
        parts.append("`%s` %s [%s]" % (label, b, " ".join(hs)))
    return "; ".join(parts)


print("| id | quick | thorough |")
print("|---|---|---|")
for i in range(1, 21):
    pid = "C%02d" % i
    cells = []
    for tier in ("quick", "thorough"):
        p = os.path.join(V, "evidence", tier, pid + ".json")
        if not os.path.exists(p):
            cells.append("-")
            continue
        ev = json.load(open(p))
        c = ev["coverage"]
        n = c.get("executions", c.get("evaluations", 0))
        cells.append("%s — %s programs/configurations, %.3g M executions/evaluations, %.0f s%s" % (
            runs_text(ev), c.get("programs", c.get("configurations", 0)), n / 1e6, ev["wall_s"], "" if c.get("exhaustive") else ", budget reached in the runs marked *"))
    print("| %s | %s | %s |" % (pid, cells[0], cells[1]))
