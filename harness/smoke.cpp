// smoke.cpp — audit of the instrumentation layer: the same single-writer scenarios are built once
// plainly (no shim) and once with vshim.hpp in pass-through mode (no scheduler running); every
// observable must be identical. Mirrors the repository's single-threaded lock / epoch / id / zipf tests.
#include <cstdio>
#include <random>
#include <thread>

#include "dbgroup/lock/mcs_lock.hpp"
#include "dbgroup/lock/optimistic_lock.hpp"
#include "dbgroup/lock/pessimistic_lock.hpp"
#include "dbgroup/random/zipf.hpp"
#include "dbgroup/thread/epoch_manager.hpp"
#include "dbgroup/thread/id_manager.hpp"
#ifdef CPP_UTILITY_VERIF
#include "vshim_off.hpp"
#endif

using namespace dbgroup;  // NOLINT

template <class Lock>
void
LockSmoke(const char *name)
{
  Lock l{};
  {
    auto s1 = l.LockS();
    printf("%s s1=%d\n", name, static_cast<bool>(s1));
    typename Lock::SGuard moved{std::move(s1)};
    printf("%s moved=%d from=%d\n", name, static_cast<bool>(moved), static_cast<bool>(s1));
  }
  {
    auto six = l.LockSIX();
    typename Lock::SIXGuard six2{};
    six2 = std::move(six);
    printf("%s six=%d six2=%d\n", name, static_cast<bool>(six), static_cast<bool>(six2));
  }
  {
    auto six = l.LockSIX();
    auto x = six.UpgradeToX();
    printf("%s up x=%d six=%d\n", name, static_cast<bool>(x), static_cast<bool>(six));
    auto six2 = x.DowngradeToSIX();
    printf("%s down six=%d x=%d\n", name, static_cast<bool>(six2), static_cast<bool>(x));
  }
  for (int i = 0; i < 3; ++i) {
    auto x = l.LockX();
    typename Lock::XGuard y{};
    y = std::move(x);
    printf("%s x=%d y=%d\n", name, static_cast<bool>(x), static_cast<bool>(y));
  }
  // hand-over between two real threads, strictly sequential
  std::thread t{[&] {
    auto x = l.LockX();
    printf("%s thread x=%d\n", name, static_cast<bool>(x));
  }};
  t.join();
  auto s = l.LockS();
  printf("%s final s=%d\n", name, static_cast<bool>(s));
}

int
main()
{
  LockSmoke<lock::PessimisticLock>("pess");
  LockSmoke<lock::OptimisticLock>("opt");
  LockSmoke<lock::MCSLock>("mcs");
  {
    lock::OptimisticLock l{};
    auto g = l.GetVersion();
    printf("opt v=%u verify=%d\n", g.GetVersion(), g.VerifyVersion());
    {
      auto x = l.LockX();
      x.SetVersion(41);
    }
    printf("opt verify-after=%d now=%u\n", g.VerifyVersion(), g.GetVersion());
    {
      auto x = g.TryLockX();
      printf("opt try=%d ver=%u\n", static_cast<bool>(x), x.GetVersion());
    }
    auto c = l.PrepareRead();
    printf("opt prep own=%d ver=%u verify=%d\n", static_cast<bool>(c), c.GetVersion(), c.VerifyVersion());
    auto g2 = l.GetVersion();
    auto s = g2.TryLockS();
    auto six = g2.TryLockSIX();
    printf("opt tryS=%d try6=%d\n", static_cast<bool>(s), static_cast<bool>(six));
  }
  {
    const auto id = thread::IDManager::GetThreadID();
    const auto hb = thread::IDManager::GetHeartBeat();
    printf("idm inrange=%d stable=%d expired=%d\n", id < thread::kMaxThreadNum, id == thread::IDManager::GetThreadID(), hb.expired());
    decltype(thread::IDManager::GetHeartBeat()) other{};
    size_t other_id = 0;
    std::thread t{[&] {
      other_id = thread::IDManager::GetThreadID();
      other = thread::IDManager::GetHeartBeat();
    }};
    t.join();
    printf("idm other-distinct=%d other-expired=%d\n", other_id != id, other.expired());
  }
  {
    thread::EpochManager m{};
    printf("epoch cur=%zu min=%zu\n", m.GetCurrentEpoch(), m.GetMinEpoch());
    {
      auto g = m.CreateEpochGuard();
      for (int i = 0; i < 600; ++i) m.ForwardGlobalEpoch();
      printf("epoch cur=%zu min=%zu guard=%zu\n", m.GetCurrentEpoch(), m.GetMinEpoch(), g.GetProtectedEpoch());
      auto [g2, list] = m.GetProtectedEpochs();
      printf("epoch list:");
      for (auto e : list) printf(" %zu", e);
      printf("\n");
    }
    for (int i = 0; i < 3; ++i) m.ForwardGlobalEpoch();
    printf("epoch cur=%zu min=%zu\n", m.GetCurrentEpoch(), m.GetMinEpoch());
  }
  {
    std::mt19937_64 e{7};
    random::ZipfDistribution<uint64_t> z{10, 1009, 1.1};
    random::ApproxZipfDistribution<int32_t> a{-5, 5000, 0.8};
    printf("zipf");
    for (int i = 0; i < 8; ++i) printf(" %lu %d", z(e), a(e));
    printf(" cdf=%.17g %.17g\n", z.GetCDF(5), a.GetCDF(500));
  }
  return 0;
}
