// epoch.cpp — exploration harness for EpochManager / EpochGuard (C04, C16, C17, C20).
// Built with DBGROUP_MAX_THREAD_NUM = capacity (1..3).
//
// program text:  "k=<n>;<thread> | <thread> ..." where <thread> = "W<pos>:<ops>" (worker, probe start
// <pos>) or "K:<ops>" (coordinator). k = number of ForwardGlobalEpoch calls performed sequentially
// before the threads start (places the concurrent part relative to a 256-epoch node boundary).
// An op may carry a turn suffix "@n": it runs only when the global turn counter equals n
// (sequential histories for C20).
//   worker ops:       C create guard   D destroy guard   E re-read guard epoch   P scheduling point
//                     I GetThreadID (+ heartbeat-at-reuse check)   H GetHeartBeat (recorded)
//                     M self move-assignment of the guard   T overwrite the guard by a guard of a second manager   Z drop both
//                     L GetProtectedEpochs (guard + list)   V verify list unchanged and alive
//                     Q GetCurrentEpoch   N GetMinEpoch
//   coordinator ops:  F one ForwardGlobalEpoch (interleaved)   B<n> n forwards as one indivisible
//                     block (a long stall of the workers)   Q   N   G coordinator reads the list
//                     through the public API
#include "dbgroup/thread/epoch_manager.hpp"
#include "dbgroup/thread/id_manager.hpp"
#include "vshim_off.hpp"
// ---- plain C++ ----
#include <cinttypes>
#include <cstdarg>
#include <cstring>
#include <optional>
#include <functional>
#include <set>
#include <sstream>

#include "vs_engine.hpp"

using dbgroup::thread::EpochGuard;
using dbgroup::thread::EpochManager;
using dbgroup::thread::IDManager;
using HB = vshim::WeakPtr<size_t>;
constexpr int kCap = DBGROUP_MAX_THREAD_NUM;
constexpr size_t kInitial = EpochManager::kInitialEpoch;

// ---- introspection of manager internals -------------------------------------------------------------------
// The oracles need two things the public API does not offer without side effects: the list published for a given
// epoch and the number of list nodes alive. Both are obtained through private names of the current source where
// they exist; after a refactoring that renames them the harness falls back to name-independent means (a scan of
// the manager object for the pointer to a live node-sized heap block) and, failing that, skips the checks that
// need the missing information instead of failing to build. The evidence records the mode (INTROSPECTION).
template <class M>
constexpr size_t
NodeSizeOf()
{
  if constexpr (requires { typename M::ProtectedNode; }) {
    return sizeof(typename M::ProtectedNode);
  } else {
    return 0;
  }
}
constexpr size_t kNodeSize = NodeSizeOf<EpochManager>();

namespace
{
constexpr int kMaxT = 6;
constexpr int kSnap = 24;

struct OpC {
  std::string text;
  char mn = 0;
  int arg = 0;
  int turn = -1;
};
struct ThreadProg {
  bool coord = false;
  bool recycle = false;  // role 'R': a worker that gets the same (fake) std::thread::id as the first worker with this probe start
  int pos = 0;
  std::vector<OpC> ops;
};
struct Program {
  std::string text;
  int prefix = 0;
  bool sequential = false;
  int wave2_from = -1;  // threads after "||" start when all earlier threads have exited
  std::vector<ThreadProg> th;
} PROG;

Program
Parse(const std::string &text)
{
  Program p;
  p.text = text;
  std::string body = text;
  if (body.rfind("k=", 0) == 0) {
    auto sc = body.find(';');
    p.prefix = atoi(body.substr(2, sc - 2).c_str());
    body = body.substr(sc + 1);
  }
  {
    // "A | B || C | D": second wave
    auto w = body.find("||");
    if (w != std::string::npos) {
      int n = 0;
      for (size_t k = 0; k < w; ++k) n += body[k] == '|' ? 1 : 0;
      p.wave2_from = n + 1;
      body = body.substr(0, w) + "|" + body.substr(w + 2);
    }
  }
  std::stringstream ss(body);
  std::string thr;
  bool all_turns = true;
  while (std::getline(ss, thr, '|')) {
    ThreadProg tp;
    size_t i = 0;
    while (i < thr.size() && thr[i] == ' ') ++i;
    tp.coord = thr[i] == 'K';
    tp.recycle = thr[i] == 'R';
    auto c = thr.find(':');
    if (!tp.coord) tp.pos = atoi(thr.substr(i + 1, c - i - 1).c_str());
    std::stringstream ts(thr.substr(c + 1));
    std::string tok;
    while (ts >> tok) {
      OpC o;
      o.text = tok;
      o.mn = tok[0];
      auto at = tok.find('@');
      std::string head = at == std::string::npos ? tok : tok.substr(0, at);
      if (at != std::string::npos) o.turn = atoi(tok.substr(at + 1).c_str());
      if (head.size() > 1) o.arg = atoi(head.substr(1).c_str());
      if (o.turn < 0) all_turns = false;
      tp.ops.push_back(o);
    }
    p.th.push_back(tp);
  }
  p.sequential = all_turns;
  return p;
}

std::string
Fmt(const char *f, ...)
{
  char buf[512];
  va_list ap;
  va_start(ap, f);
  vsnprintf(buf, sizeof buf, f, ap);
  va_end(ap);
  return buf;
}

struct GuardRec {
  bool alive = false;       // creation returned, destruction not yet requested
  bool in_create = false;   // C or L in progress
  bool in_destroy = false;  // D in progress (LeaveEpoch may or may not have happened)
  size_t epoch = 0;
  uint64_t created_stamp = 0;
  // list handed out by GetProtectedEpochs
  bool has_list = false;
  const std::vector<size_t> *list = nullptr;
  const size_t *data = nullptr;
  size_t n = 0;
  size_t snap[kSnap];
};

struct Ghost {
  uint64_t stamp = 0;
  GuardRec g[kMaxT];
  // observers
  size_t last_cur[kMaxT];
  // (value, return stamp) of GetMinEpoch results
  size_t min_val[64];
  uint64_t min_stamp[64];
  int nmins = 0;
  bool fwd_active = false;
  bool fwd_quiet = false;
  uint64_t fwd_start = 0;
  size_t baseline_blocks = 0;
  size_t baseline_bytes = 0;
  size_t max_nodes = 0;
  long dummy = 0;
  char results[kMaxT][96];
  // heartbeats (C15 in the presence of the coordinator)
  HB hb[kMaxT];
  bool hb_used[kMaxT];
  int hb_id[kMaxT];
  int id_of[kMaxT];
  bool body_done[kMaxT];
} *GH;

struct World {
  EpochManager *mgr = nullptr;
  EpochManager *mgr2 = nullptr;  // second manager (guards of different managers moved into each other)
  vshim::Atomic<int> turn{0};
} *W;

void
AddResult(int tid, const char *f, ...)
{
  size_t n = strlen(GH->results[tid]);
  if (n + 24 >= sizeof GH->results[tid]) return;
  va_list ap;
  va_start(ap, f);
  vsnprintf(GH->results[tid] + n, sizeof GH->results[tid] - n, f, ap);
  va_end(ap);
}

bool
IsNodeBlock(const vs::BlockInfo &bi)
{
  return bi.st == vs::B_LIVE && (kNodeSize != 0 ? bi.size == kNodeSize : bi.size >= 2048);
}

// head of the node chain without knowing the member's name: the manager object holds exactly one pointer
// (plain or atomic) to the base of a live node block
template <class M>
void *
ScanForHead(M *m)
{
  void *found = nullptr;
  const auto *bytes = reinterpret_cast<const unsigned char *>(m);
  for (size_t off = 0; off + sizeof(void *) <= sizeof(M); off += sizeof(void *)) {
    void *cand = nullptr;
    memcpy(&cand, bytes + off, sizeof cand);
    if (cand == nullptr) continue;
    auto bi = vs::BlockOf(cand);
    if (IsNodeBlock(bi) && bi.base == cand) {
      if (found != nullptr && found != cand) return nullptr;  // ambiguous
      found = cand;
    }
  }
  return found;
}

// 0: private names of the pinned source, 1: name-independent scan, 2: unavailable
template <class M>
const std::vector<size_t> *
ListOfImpl(M *m, size_t epoch, int *mode)
{
  if constexpr (requires { M::ProtectedNode::GetProtectedEpochs(epoch, m->protected_lists_); }) {
    *mode = 0;
    return &M::ProtectedNode::GetProtectedEpochs(epoch, m->protected_lists_);
  } else if constexpr (requires { typename M::ProtectedNode; }) {
    using N = typename M::ProtectedNode;
    if constexpr (requires(N * n) { N::GetProtectedEpochs(epoch, n).size(); }) {
      auto *head = static_cast<N *>(ScanForHead(m));
      if (head != nullptr) {
        *mode = 1;
        return &N::GetProtectedEpochs(epoch, head);
      }
    }
    *mode = 2;
    return nullptr;
  } else {
    *mode = 2;
    return nullptr;
  }
}

int g_introspection = 0;

template <class M>
constexpr int
StaticIntrospectionMode()
{
  if constexpr (requires(M * m, size_t e) { M::ProtectedNode::GetProtectedEpochs(e, m->protected_lists_); }) {
    return 0;
  } else if constexpr (requires { typename M::ProtectedNode; }) {
    if constexpr (requires(typename M::ProtectedNode * n, size_t e) { M::ProtectedNode::GetProtectedEpochs(e, n).size(); }) {
      return 1;
    } else {
      return 2;
    }
  } else {
    return 2;
  }
}
constexpr const char *kIntrospectionNames[] = {"private names of the pinned source", "name-independent scan for the list head",
                                                "unavailable: list-based oracles skipped, public observers only"};

// name of an address inside the manager for traces (names of the pinned source where they exist, offsets otherwise)
template <class M>
std::string
MemberName(M *m, const void *a)
{
  if constexpr (requires { &m->global_epoch_; &m->min_epoch_; &m->tls_fields_[0].epoch.entered_; }) {
    if (a == &m->global_epoch_) return "global_epoch";
    if (a == &m->min_epoch_) return "min_epoch";
    for (int i = 0; i < kCap; ++i)
      if (a == &m->tls_fields_[i].epoch.entered_) return "slot" + std::to_string(i) + ".entered";
  }
  const auto *lo = reinterpret_cast<const char *>(m);
  const auto *p = static_cast<const char *>(a);
  if (p >= lo && p < lo + sizeof(M)) return "manager+" + std::to_string(p - lo);
  return "";
}

const std::vector<size_t> *
ListOf(size_t epoch)
{
  int mode = 0;
  auto *l = ListOfImpl(W->mgr, epoch, &mode);
  if (mode > g_introspection) g_introspection = mode;
  return l;
}

std::string
ListStr(const std::vector<size_t> &v)
{
  std::string s = "{";
  for (size_t i = 0; i < v.size() && i < 12; ++i) s += (i ? "," : "") + std::to_string(v[i]);
  return s + "}";
}

size_t
LiveNodes()
{
  if (kNodeSize != 0) return vs::LiveBlocksOfSize(kNodeSize);
  size_t n = 0;
  vs::ForEachBlock([&](const vs::BlockInfo &bi) { n += IsNodeBlock(bi) ? 1 : 0; });
  return n;
}

// checks after one complete ForwardGlobalEpoch by the coordinator (called inside NoSchedule)
void
AfterForward(int tid, size_t before, uint64_t start_stamp, bool quiet, bool indivisible)
{
  const size_t cur = W->mgr->GetCurrentEpoch();
  if (cur != before + 1) {
    vs::Violate("C16", "EPOCH-STEP", Fmt("ForwardGlobalEpoch moved the global epoch from %zu to %zu", before, cur));
  }
  const auto *list_ptr = ListOf(cur);
  static const std::vector<size_t> kNoList{};
  const bool have_list = list_ptr != nullptr;
  const auto &list = have_list ? *list_ptr : kNoList;
  const size_t mn = W->mgr->GetMinEpoch();
  // C04: every guard completely created before the call started and still alive is covered
  for (int t = 0; t < static_cast<int>(PROG.th.size()); ++t) {
    auto &g = GH->g[t];
    if (!g.alive || g.created_stamp >= start_stamp) continue;
    bool in = !have_list;
    for (auto e : list) in |= (e == g.epoch);
    if (!in) {
      vs::Violate("C04", "GUARD-NOT-PROTECTED",
                  Fmt("T%d's live guard pins epoch %zu but the list published for epoch %zu is %s", t, g.epoch, cur, ListStr(list).c_str()));
    }
    if (mn > g.epoch) {
      vs::Violate("C04", "MIN-ABOVE-GUARD", Fmt("GetMinEpoch() = %zu exceeds epoch %zu pinned by T%d's live guard", mn, g.epoch, t));
    }
  }
  if (!have_list) {
    // internals not reachable (see ListOfImpl): only the checks on the public observers remain
    if (quiet && mn != cur - 1) {
      vs::Violate("C16", "QUIESCENT-MIN", Fmt("no guard existed during the forward to %zu, yet GetMinEpoch() = %zu", cur, mn));
    }
    (void)tid;
    (void)indivisible;
    return;
  }
  // list shape (always): strictly descending, starts with the new epoch, contains the previous one
  bool desc = !list.empty() && list.front() == cur;
  for (size_t i = 1; i < list.size(); ++i) desc &= list[i] < list[i - 1];
  bool has_prev = false;
  for (auto e : list) has_prev |= (e == before);
  if (!desc || !has_prev) {
    vs::Violate("C20,C16", "LIST-SHAPE", Fmt("list published for epoch %zu is %s", cur, ListStr(list).c_str()));
  }
  if (!list.empty() && mn != list.back()) {
    vs::Violate("C20,C16", "MIN-NOT-LAST", Fmt("GetMinEpoch() = %zu but the smallest published epoch is %zu", mn, list.back()));
  }
  // C16: quiescent forward
  if (quiet) {
    if (list.size() != 2 || list[0] != cur || list[1] != cur - 1 || mn != cur - 1) {
      vs::Violate("C16", "QUIESCENT-LIST",
                  Fmt("no guard existed during the forward to %zu, yet list = %s and min = %zu", cur, ListStr(list).c_str(), mn));
    }
  }
  // C20: exact list and node bound when nothing runs concurrently with the forward
  if (PROG.sequential || indivisible) {
    std::set<size_t, std::greater<size_t>> want = {cur, before};
    bool exact = true;
    for (int t = 0; t < static_cast<int>(PROG.th.size()); ++t) {
      if (GH->g[t].alive) want.insert(GH->g[t].epoch);
      if (GH->g[t].in_create || GH->g[t].in_destroy) exact = false;  // in flight: its epoch may or may not be seen
    }
    if (exact) {
      bool same = want.size() == list.size();
      size_t i = 0;
      for (auto e : want) {
        if (i >= list.size() || list[i] != e) same = false;
        ++i;
      }
      if (!same) {
        std::string w = "{";
        for (auto e : want) w += std::to_string(e) + ",";
        vs::Violate("C20", "LIST-EXACT", Fmt("list published for epoch %zu is %s, expected %s}", cur, ListStr(list).c_str(), w.c_str()));
      }
      std::set<size_t> ranges;
      for (auto e : want) ranges.insert(e >> 8);
      const size_t live = LiveNodes();
      GH->max_nodes = std::max(GH->max_nodes, live);
      if (live > ranges.size() + 1) {
        vs::Violate("C20", "NODE-BOUND", Fmt("%zu list nodes are allocated although the protected epochs span %zu range(s)", live, ranges.size()));
      }
    }
  }
  (void)tid;
}

void
VerifyList(int tid, const char *when)
{
  auto &g = GH->g[tid];
  if (!g.has_list) return;
  auto b1 = vs::BlockOf(g.list);
  auto b2 = g.n ? vs::BlockOf(g.data) : vs::BlockInfo{vs::B_LIVE, nullptr, 0, 0};
  if (b1.st != vs::B_LIVE || b2.st != vs::B_LIVE) {
    vs::Violate("C17", "LIST-FREED", Fmt("the list handed to T%d for epoch %zu was freed while its guard is alive (%s)", tid, g.epoch, when));
    return;
  }
  const auto &v = *g.list;
  bool same = v.size() == g.n && (g.n == 0 || v.data() == g.data);
  for (size_t i = 0; same && i < g.n && i < kSnap; ++i) same &= v[i] == g.snap[i];
  if (!same) {
    vs::Violate("C17", "LIST-MODIFIED", Fmt("the list handed to T%d for epoch %zu changed while its guard is alive (%s): now %s", tid, g.epoch, when, ListStr(v).c_str()));
  }
}

void
Body(int tid)
{
  const auto &tp = PROG.th[tid];
  std::optional<EpochGuard> guard;
  std::optional<EpochGuard> guard2;
  static char labels[kMaxT][32];
  auto &g = GH->g[tid];
  int step = 0;
  bool quit = false;
  for (const auto &op : tp.ops) {
    snprintf(labels[tid], sizeof labels[tid], "%s#%d", op.text.c_str(), step);
    vs::SetCall(labels[tid]);
    if (op.turn >= 0) {
      while (W->turn.load(std::memory_order_acquire) != op.turn) vshim::Pause();
    }
    {
      uint64_t h = vs::Mix(static_cast<uint64_t>(step), g.alive ? g.epoch : 0);
      h = vs::Mix(h, (g.has_list ? 2U : 0U) | (guard.has_value() ? 1U : 0U));
      h = vs::Mix(h, GH->last_cur[tid]);
      vs::Boundary(h);
    }
    switch (op.mn) {
      case 'C': {
        {
          vs::NoSchedule ns;
          g.in_create = true;
          if (GH->fwd_active) GH->fwd_quiet = false;
          ++GH->stamp;
        }
        guard.emplace(W->mgr->CreateEpochGuard());
        vs::NoSchedule ns;
        g.epoch = guard->GetProtectedEpoch();
        g.alive = true;
        g.in_create = false;
        g.has_list = false;
        g.created_stamp = ++GH->stamp;
        AddResult(tid, "c%zu ", g.epoch);
        break;
      }
      case 'L': {
        {
          vs::NoSchedule ns;
          g.in_create = true;
          if (GH->fwd_active) GH->fwd_quiet = false;
          ++GH->stamp;
        }
        auto pr = W->mgr->GetProtectedEpochs();
        vs::NoSchedule ns;
        const std::vector<size_t> &list = pr.second;
        guard.emplace(std::move(pr.first));
        g.epoch = guard->GetProtectedEpoch();
        g.alive = true;
        g.in_create = false;
        g.created_stamp = ++GH->stamp;
        g.has_list = true;
        g.list = &list;
        auto b1 = vs::BlockOf(g.list);
        if (b1.st != vs::B_LIVE) {
          vs::Violate("C17", "LIST-FREED", Fmt("GetProtectedEpochs handed T%d a list inside freed memory (epoch %zu)", tid, g.epoch));
          g.has_list = false;
          break;
        }
        g.n = list.size();
        g.data = list.data();
        if (g.n && vs::BlockOf(g.data).st != vs::B_LIVE) {
          vs::Violate("C17", "LIST-FREED", Fmt("GetProtectedEpochs handed T%d a list whose buffer is freed (epoch %zu)", tid, g.epoch));
          g.has_list = false;
          break;
        }
        for (size_t i = 0; i < g.n && i < kSnap; ++i) g.snap[i] = list[i];
        bool desc = true;
        for (size_t i = 1; i < g.n; ++i) desc &= list[i] < list[i - 1];
        if (!desc) vs::Violate("C17", "LIST-NOT-DESCENDING", Fmt("T%d received %s for epoch %zu", tid, ListStr(list).c_str(), g.epoch));
        if (g.n == 0 || list[0] != g.epoch) {
          vs::Violate("C17", "LIST-NOT-OWN", Fmt("T%d's guard pins epoch %zu but the list handed out with it is %s", tid, g.epoch, ListStr(list).c_str()));
        } else if (g.epoch > kInitial) {
          bool has = false;
          for (auto e : list) has |= (e == g.epoch - 1);
          if (!has) vs::Violate("C17", "LIST-MISSING-PREVIOUS", Fmt("T%d's list for epoch %zu is %s (previous epoch missing)", tid, g.epoch, ListStr(list).c_str()));
        }
        AddResult(tid, "l%zu ", g.epoch);
        break;
      }
      case 'V': {
        vs::PlainPoint(&GH->dummy, false);
        vs::NoSchedule ns;
        if (g.alive) VerifyList(tid, "re-read");
        break;
      }
      case 'E': {
        if (!guard) break;
        const size_t e = guard->GetProtectedEpoch();
        vs::NoSchedule ns;
        if (e != g.epoch) vs::Violate("C04,C17", "GUARD-EPOCH-CHANGED", Fmt("T%d's guard reported epoch %zu, now %zu", tid, g.epoch, e));
        break;
      }
      case 'P':
        vs::PlainPoint(&GH->dummy, false);
        break;
      case 'D': {
        if (!guard) break;
        {
          vs::NoSchedule ns;
          if (g.alive) VerifyList(tid, "just before the guard is destroyed");
          g.alive = false;
          g.in_destroy = true;
          g.has_list = false;
          ++GH->stamp;
        }
        guard.reset();
        vs::NoSchedule ns;
        g.in_destroy = false;
        ++GH->stamp;
        break;
      }
      case 'M': {  // self move-assignment: whatever the guard is afterwards, the protection must end with it
        if (!guard) break;
        {
          vs::NoSchedule ns;
          g.alive = false;
          g.in_destroy = true;
          g.has_list = false;
          ++GH->stamp;
        }
        {
          auto &ref = *guard;
          *guard = std::move(ref);
        }
        guard.reset();
        vs::NoSchedule ns;
        g.in_destroy = false;
        ++GH->stamp;
        break;
      }
      case 'T': {  // overwrite the live guard by a named guard of a second manager (kept alive in guard2's place)
        if (!guard || W->mgr2 == nullptr) break;
        guard2.emplace(W->mgr2->CreateEpochGuard());
        {
          vs::NoSchedule ns;
          g.alive = false;
          g.in_destroy = true;
          g.has_list = false;
          ++GH->stamp;
        }
        *guard = std::move(*guard2);  // the protection in the first manager ends here
        vs::NoSchedule ns;
        g.in_destroy = false;
        ++GH->stamp;
        break;
      }
      case 'Z': {  // destroy the moved-from object and the overwritten guard
        guard2.reset();
        guard.reset();
        break;
      }
      case 'A': {  // re-arm: assign a freshly created guard over the live one (two guards of one thread overlap
                   // for a moment, which is outside the one-guard-per-thread discipline: from here on the
                   // guard is only required to stop pinning when it is destroyed)
        if (!guard) break;
        {
          vs::NoSchedule ns;
          g.alive = false;
          g.in_destroy = true;
          g.has_list = false;
          ++GH->stamp;
        }
        *guard = W->mgr->CreateEpochGuard();
        break;
      }
      case 'X': {  // destroy the manager and construct a new one at the same address (no guard may exist)
        vs::PlainPoint(&GH->dummy, false);
        vs::NoSchedule ns;
        bool any = false;
        for (int t = 0; t < static_cast<int>(PROG.th.size()); ++t) any |= GH->g[t].alive || GH->g[t].in_create || GH->g[t].in_destroy;
        if (any) break;
        W->mgr->~EpochManager();
        ::new (static_cast<void *>(W->mgr)) EpochManager{};
        for (auto &c : GH->last_cur) c = 0;
        GH->nmins = 0;
        break;
      }
      case 'I': {  // learn the thread ID explicitly (C15: earlier heartbeats of this ID must be expired)
        const bool first = GH->id_of[tid] < 0;
        const size_t id = IDManager::GetThreadID();
        vs::NoSchedule ns;
        if (first && id < static_cast<size_t>(kCap)) {
          for (int u = 0; u < static_cast<int>(PROG.th.size()); ++u) {
            if (u == tid || !GH->hb_used[u] || GH->hb_id[u] != static_cast<int>(id)) continue;
            if (!GH->hb[u].RawExpired()) {
              vs::Violate("C15", "HEARTBEAT-ALIVE-AT-REUSE",
                          Fmt("id %zu was given to T%d while the heartbeat handed out to its earlier owner T%d is not expired", id, tid, u));
            }
          }
          GH->id_of[tid] = static_cast<int>(id);
        }
        break;
      }
      case 'H': {
        HB h = IDManager::GetHeartBeat();
        vs::NoSchedule ns;
        if (h.RawExpired()) vs::Violate("C15", "HEARTBEAT-EXPIRED-EARLY", Fmt("T%d received an expired heartbeat", tid));
        GH->hb[tid] = h;
        GH->hb_used[tid] = true;
        if (GH->id_of[tid] < 0) GH->id_of[tid] = static_cast<int>(IDManager::GetThreadID());
        GH->hb_id[tid] = GH->id_of[tid];
        break;
      }
      case 'Q': {
        uint64_t start;
        {
          vs::NoSchedule ns;
          start = ++GH->stamp;
        }
        const size_t c = W->mgr->GetCurrentEpoch();
        vs::NoSchedule ns;
        if (c < GH->last_cur[tid]) vs::Violate("C16", "EPOCH-DECREASED", Fmt("T%d saw the global epoch go from %zu to %zu", tid, GH->last_cur[tid], c));
        if (c < kInitial) vs::Violate("C16", "EPOCH-BELOW-INITIAL", Fmt("GetCurrentEpoch() = %zu", c));
        GH->last_cur[tid] = c;
        for (int i = 0; i < GH->nmins; ++i) {
          if (GH->min_stamp[i] < start && GH->min_val[i] > c) {
            vs::Violate("C16", "MIN-ABOVE-CURRENT", Fmt("GetMinEpoch() returned %zu, a later GetCurrentEpoch() returned %zu", GH->min_val[i], c));
          }
        }
        AddResult(tid, "q%zu ", c);
        break;
      }
      case 'N': {
        const size_t m = W->mgr->GetMinEpoch();
        vs::NoSchedule ns;
        if (GH->nmins < 64) {
          GH->min_val[GH->nmins] = m;
          GH->min_stamp[GH->nmins] = ++GH->stamp;
          ++GH->nmins;
        }
        AddResult(tid, "n%zu ", m);
        break;
      }
      case 'F': {
        size_t before;
        uint64_t start;
        bool quiet = true;
        {
          vs::NoSchedule ns;
          before = W->mgr->GetCurrentEpoch();
          for (int t = 0; t < static_cast<int>(PROG.th.size()); ++t) quiet &= !(GH->g[t].alive || GH->g[t].in_create || GH->g[t].in_destroy);
          GH->fwd_active = true;
          GH->fwd_quiet = quiet;
          start = GH->fwd_start = ++GH->stamp;
        }
        W->mgr->ForwardGlobalEpoch();
        vs::NoSchedule ns;
        GH->fwd_active = false;
        // guards destroyed meanwhile do not matter for quiescence; creations do (fwd_quiet cleared)
        AfterForward(tid, before, start, GH->fwd_quiet, false);
        ++GH->stamp;
        break;
      }
      case 'f': {  // the coordinator of a second manager instance forwards *its* manager
        if (W->mgr2 == nullptr) break;
        size_t before;
        {
          vs::NoSchedule ns;
          before = W->mgr2->GetCurrentEpoch();
        }
        W->mgr2->ForwardGlobalEpoch();
        vs::NoSchedule ns;
        const size_t cur = W->mgr2->GetCurrentEpoch();
        if (cur != before + 1) {
          vs::Violate("C16", "EPOCH-STEP:second-manager", Fmt("ForwardGlobalEpoch moved the second manager's epoch from %zu to %zu", before, cur));
        }
        bool uses_t = false;
        for (auto &t : PROG.th)
          for (auto &o : t.ops) uses_t |= (o.mn == 'T');
        if (!uses_t) {
          // nobody ever creates a guard of the second manager in this program
          int mode = 0;
          const auto *l = ListOfImpl(W->mgr2, cur, &mode);
          const size_t mn = W->mgr2->GetMinEpoch();
          const bool list_ok = l == nullptr || (l->size() == 2 && (*l)[0] == cur && (*l)[1] == cur - 1);
          if (!list_ok || mn != cur - 1) {
            vs::Violate("C16,C20", "SECOND-MANAGER-LIST",
                        Fmt("no guard of the second manager exists, yet its list for epoch %zu is %s and its minimum epoch %zu", cur,
                            l != nullptr ? ListStr(*l).c_str() : "?", mn));
          }
        }
        break;
      }
      case 'B': {
        vs::PlainPoint(&GH->dummy, false);
        vs::NoSchedule ns;
        for (int i = 0; i < op.arg; ++i) {
          const size_t before = W->mgr->GetCurrentEpoch();
          bool quiet = true;
          for (int t = 0; t < static_cast<int>(PROG.th.size()); ++t) quiet &= !(GH->g[t].alive || GH->g[t].in_create || GH->g[t].in_destroy);
          const uint64_t start = ++GH->stamp;
          W->mgr->ForwardGlobalEpoch();
          AfterForward(tid, before, start, quiet, true);
        }
        ++GH->stamp;
        break;
      }
      case 'G': {  // coordinator (or anybody) reads the current list through the public API
        auto pr = W->mgr->GetProtectedEpochs();
        vs::NoSchedule ns;
        const size_t e = pr.first.GetProtectedEpoch();
        if (pr.second.empty() || pr.second.front() != e) {
          vs::Violate("C17", "LIST-NOT-OWN", Fmt("T%d (public read): guard epoch %zu, list %s", tid, e, ListStr(pr.second).c_str()));
        }
        for (int t = 0; t < static_cast<int>(PROG.th.size()); ++t) {
          auto &o = GH->g[t];
          if (t == tid || !o.alive || o.epoch > e) continue;
          // a guard that was alive before this epoch became current must be in its list
          if (o.epoch < e) {
            bool in = false;
            for (auto x : pr.second) in |= (x == o.epoch);
            if (!in && !GH->fwd_active) {
              vs::Violate("C04", "GUARD-NOT-PROTECTED:public", Fmt("T%d's live guard pins %zu; list of epoch %zu read through GetProtectedEpochs is %s", t, o.epoch, e, ListStr(pr.second).c_str()));
            }
          }
        }
        break;
      }
      case 'Y':  // the thread returns from its body now (its guard, if any, dies with it; thread-exit clean-up follows)
        quit = true;
        break;
      default:
        vs::ViolateFatal("INTERNAL", "BAD-OP", "unknown op " + op.text);
    }
    if (op.turn >= 0) W->turn.store(op.turn + 1, std::memory_order_release);
    ++step;
    if (quit) break;
  }
  vs::SetCall("script-end");
  {
    vs::NoSchedule ns;
    // a heartbeat is not expired while its thread is still running user code
    for (int u = 0; u < static_cast<int>(PROG.th.size()); ++u) {
      if (GH->hb_used[u] && !GH->body_done[u] && GH->hb[u].RawExpired()) {
        vs::Violate("C15", "HEARTBEAT-EXPIRED-EARLY", Fmt("the heartbeat of running thread T%d is expired (seen by T%d)", u, tid));
      }
    }
  }
  if (guard) {
    {
      vs::NoSchedule ns;
      g.alive = false;
      g.in_destroy = true;
      g.has_list = false;
    }
    guard.reset();
    vs::NoSchedule ns;
    g.in_destroy = false;
  }
  vs::NoSchedule ns2;
  GH->body_done[tid] = true;
}

void
Setup()
{
  GH = new Ghost{};
  for (auto &c : GH->last_cur) c = 0;
  for (auto &r : GH->results) r[0] = 0;
  for (int t = 0; t < kMaxT; ++t) {
    GH->hb_used[t] = false;
    GH->hb_id[t] = -1;
    GH->id_of[t] = -1;
    GH->body_done[t] = false;
  }
  W = new World{};
  GH->baseline_blocks = vs::LiveBlocksTotal();
  GH->baseline_bytes = 0;
  vs::ForEachBlock([&](const vs::BlockInfo &bi) {
    if (bi.st == vs::B_LIVE) GH->baseline_bytes += bi.size;
  });
  W->mgr = new EpochManager{};
  bool two = false;
  for (auto &t : PROG.th)
    for (auto &o : t.ops) two |= (o.mn == 'T' || o.mn == 'f');
  if (two) W->mgr2 = new EpochManager{};
}

void
Teardown()
{
  for (int u = 0; u < static_cast<int>(PROG.th.size()); ++u) {
    if (GH->hb_used[u] && !GH->hb[u].RawExpired()) {
      vs::Violate("C15", "HEARTBEAT-ALIVE-AFTER-EXIT", Fmt("the heartbeat of T%d is not expired although the thread has exited", u));
    }
  }
  delete W->mgr;
  W->mgr = nullptr;
  delete W->mgr2;
  W->mgr2 = nullptr;
  const size_t nodes = LiveNodes();
  const size_t total = vs::LiveBlocksTotal();
  // every list node must be gone. Other blocks: the property speaks about the memory held for the lists, not about a
  // scratch buffer with static storage duration that an implementation may keep (bounded, independent of the history):
  // up to 4 residual non-node blocks of at most 4 KiB in total are tolerated, anything beyond is a leak
  size_t extra_blocks = 0, extra_bytes = 0;
  if (total > GH->baseline_blocks) {
    size_t seen = 0;
    vs::ForEachBlock([&](const vs::BlockInfo &bi) {
      if (bi.st != vs::B_LIVE || IsNodeBlock(bi)) return;
      ++seen;
      extra_bytes += bi.size;
    });
    extra_blocks = seen > GH->baseline_blocks ? seen - GH->baseline_blocks : 0;
    extra_bytes = extra_bytes > GH->baseline_bytes ? extra_bytes - GH->baseline_bytes : 0;
  }
  if (nodes != 0 || extra_blocks > 4 || extra_bytes > 4096) {
    vs::Violate("C20", "MANAGER-LEAK",
                Fmt("after destroying the EpochManager %zu list node(s) and %zu other block(s) (%zu bytes) are still allocated", nodes,
                    extra_blocks, extra_bytes));
  }
  delete W;
  delete GH;
  W = nullptr;
  GH = nullptr;
}

uint64_t
Digest()
{
  uint64_t h = 11;
  for (int t = 0; t < static_cast<int>(PROG.th.size()); ++t) {
    auto &g = GH->g[t];
    h = vs::Mix(h, (g.alive ? 1U : 0U) | (g.in_create ? 2U : 0U) | (g.has_list ? 4U : 0U) | (g.in_destroy ? 8U : 0U));
    if (g.alive) h = vs::Mix(h, g.epoch);
    // ordering of creation relative to a running forward
    h = vs::Mix(h, (g.alive && GH->fwd_active && g.created_stamp < GH->fwd_start) ? 1 : 0);
    h = vs::Mix(h, GH->last_cur[t]);
    h = vs::Mix(h, std::hash<std::string_view>{}(GH->results[t]));
  }
  for (int t = 0; t < static_cast<int>(PROG.th.size()); ++t) {
    h = vs::Mix(h, static_cast<uint64_t>(GH->id_of[t] + 1) * 8 + (GH->hb_used[t] ? 4U : 0U) + (GH->body_done[t] ? 2U : 0U) +
                       ((GH->hb_used[t] && GH->hb[t].RawExpired()) ? 1U : 0U));
  }
  h = vs::Mix(h, (GH->fwd_active ? 1U : 0U) | (GH->fwd_quiet ? 2U : 0U));
  h = vs::Mix(h, static_cast<uint64_t>(GH->nmins));
  for (int i = 0; i < GH->nmins; ++i) h = vs::Mix(h, GH->min_val[i]);
  for (int t = 0; t < static_cast<int>(PROG.th.size()); ++t) {
    auto &g = GH->g[t];
    if (!g.alive || !g.has_list) continue;
    h = vs::Mix(h, g.n);
    for (size_t i = 0; i < g.n && i < kSnap; ++i) h = vs::Mix(h, g.snap[i]);
    if (vs::BlockOf(g.list).st == vs::B_LIVE && (g.n == 0 || vs::BlockOf(g.data).st == vs::B_LIVE)) {
      const auto &v = *g.list;
      h = vs::Mix(h, v.size());
      if (v.size() < 64 && (v.empty() || vs::BlockOf(v.data()).st == vs::B_LIVE))
        for (auto e : v) h = vs::Mix(h, e);
    } else {
      h = vs::Mix(h, 0xdead);
    }
  }
  // plain (non-atomic) manager state that the atomics do not capture: the object representation of the manager
  // (slot bindings, list head, ...; arena memory is pattern-filled before every execution, so padding is
  // deterministic) and the set of live list nodes
  for (auto *m : {W ? W->mgr : nullptr, W ? W->mgr2 : nullptr}) {
    if (m == nullptr) continue;
    const auto *words = reinterpret_cast<const uint64_t *>(m);
    for (size_t i = 0; i < sizeof(EpochManager) / sizeof(uint64_t); ++i) h = vs::Mix(h, words[i]);
  }
  vs::ForEachBlock([&](const vs::BlockInfo &bi) {
    if (IsNodeBlock(bi)) h = vs::Mix(h, reinterpret_cast<uint64_t>(bi.base));
  });
  return h;
}

std::string
Outcome()
{
  std::string s;
  for (size_t t = 0; t < PROG.th.size(); ++t) s += std::string(GH->results[t]) + "| ";
  s += Fmt("cur=%zu min=%zu nodes=%zu", W->mgr->GetCurrentEpoch(), W->mgr->GetMinEpoch(), LiveNodes());
  return s;
}

unsigned long
HandleFor(int pos, int salt)
{
  int found = 0;
  for (unsigned long h = 1; h < 100000; ++h) {
    std::thread::id id{static_cast<std::thread::native_handle_type>(h)};
    if (static_cast<int>(std::hash<std::thread::id>{}(id) % static_cast<size_t>(kCap)) == pos) {
      if (found++ == salt) return h;
    }
  }
  return 1;
}

const char *
UafProps(const void *, const vs::BlockInfo &bi)
{
  // a freed heartbeat control block read through the plain weak_ptr of a slot is a plain-data race
  // of EpochManager that no listed property covers: recorded as an observation only
  if (bi.size == sizeof(vshim::Ctrl<size_t>)) return "OBS";
  return "C17";
}

vs::Scenario
MakeScenario()
{
  vs::Scenario s;
  s.nthreads = static_cast<int>(PROG.th.size());
  s.setup = Setup;
  s.prologue = [] {
    // sequential prefix: places the concurrent part relative to a 256-epoch node boundary
    for (int i = 0; i < PROG.prefix; ++i) W->mgr->ForwardGlobalEpoch();
    if (W->mgr2 != nullptr)
      for (int i = 0; i < 300; ++i) W->mgr2->ForwardGlobalEpoch();
  };
  s.body = Body;
  s.teardown = Teardown;
  s.digest = Digest;
  s.outcome = Outcome;
  s.uaf_props = UafProps;
  s.deadlock_props = "C14,C16";  // only GetThreadID can wait; a coordinator stuck in it can never advance the epoch
  s.name_of = [](const void *a) -> std::string {
    if (!W || !W->mgr) return "";
    if (a == &W->turn) return "turn";
    if (GH && a == &GH->dummy) return "harness.point";
    {
      std::string n = MemberName(W->mgr, a);
      if (!n.empty()) return n;
    }
    auto bi = vs::BlockOf(a);
    if (bi.st != vs::B_NONE && bi.size == sizeof(vshim::Ctrl<size_t>)) return Fmt("heartbeat-ctrl[T%d]", bi.owner);
    return "";
  };
  s.gated_from = PROG.wave2_from;
  int per_pos[16] = {0};
  unsigned long first_of_pos[16] = {0};
  for (int t = 0; t < s.nthreads; ++t) {
    const int pos = PROG.th[t].pos % kCap;
    if (PROG.th[t].recycle && first_of_pos[pos] != 0) {
      s.handles[t] = first_of_pos[pos];  // the operating system reuses the id of a joined thread
      continue;
    }
    s.handles[t] = HandleFor(pos, per_pos[pos]++);
    if (!PROG.th[t].coord && first_of_pos[pos] == 0) first_of_pos[pos] = s.handles[t];
  }
  return s;
}

// --- families -----------------------------------------------------------------------------
std::vector<std::string>
Family(const std::string &f)
{
  std::vector<std::string> out;
  const std::vector<int> prefixes = {0, 1, 254, 255, 510, 511};
  auto with_prefixes = [&](const std::string &body, const std::vector<int> &ks) {
    for (int k : ks) out.push_back("k=" + std::to_string(k) + ";" + body);
  };
  if (f == "pin1") {  // C04: one worker, one coordinator
    with_prefixes("W0:C P E P D | K:F", prefixes);
    with_prefixes("W0:C P E P D | K:F F", prefixes);
    with_prefixes("W0:C P D C P D | K:F F", {0, 254, 255});
    with_prefixes("W0:C N P E D | K:F F F", {0, 254});
    with_prefixes("W0:C P E P D | K:F N Q F", {0, 255});
  } else if (f == "pin2" && kCap >= 2) {  // two workers
    with_prefixes("W0:C P E D | W1:C P E D | K:F F", {0, 254, 255});
    with_prefixes("W0:C P E D | W0:C P E D | K:F F", {0, 255});
    with_prefixes("W0:C P D | W1:L V D | K:F F", {0, 255, 511});
  } else if (f == "reuse") {  // C04 ID reuse: more workers than ids, forced identical probe starts
    if (kCap == 1) {
      with_prefixes("W0:C P D | W0:C P E P D | K:F F", {0, 255});
      with_prefixes("W0:C D | W0:C P E P D | K:F", {0, 255});
      with_prefixes("W0:C D | W0:C P E N P D | K:F F F", {0});
    } else if (kCap == 2) {
      with_prefixes("W0:C P D | W0:C P E P D | W0:C P E D | K:F F", {0, 255});
      with_prefixes("W0:C D | W0:C D | W0:C P E P D | K:F", {0});
    }
  } else if (f == "recycle") {  // C04: a new thread gets the std::thread::id (and the ID slot) of a joined one
    out.push_back("k=0;W0:C P D || R0:C P E P D | K:F F");
    out.push_back("k=0;W0:C D || R0:C P E P D | K:F F F");
    out.push_back("k=255;W0:C P D || R0:C P E P D | K:F F");
  } else if (f == "recycle17") {  // C17: the list handed to a thread that inherited the ID slot of an exited thread, then many epochs pass
    for (int k : {0, 255, 300, 511}) {  // 300: the guard's epoch lies in a node that is neither the initial nor the newest one
      const std::string pre = "k=" + std::to_string(k) + ";";
      out.push_back(pre + "W0:C D || R0:L V P V D | K:B600");
      out.push_back(pre + "W0:L V D || R0:L V P V D | K:F B300 B300");
    }
    out.push_back("k=300;W0:C P D || R0:L P V D | K:B256 F B600");
  } else if (f == "recreate") {  // manager destroyed and constructed again at the same address while a worker thread survives
    out.push_back("k=0;W0:C@0 D@1 C@3 E@5 D@7 | K:X@2 F@4 F@6");
    out.push_back("k=0;W0:C@0 D@1 L@3 V@5 D@7 | K:X@2 F@4 F@6");
    out.push_back("k=0;W0:C@0 D@1 C@4 E@6 D@8 | K:F@2 X@3 F@5 F@7");
    out.push_back("k=0;W0:C D C P E P D | K:X F F");
  } else if (f == "moves") {  // C16: a guard consumed by a move assignment stops pinning
    out.push_back("k=0;W0:C@0 M@1 | K:F@2 F@3");
    out.push_back("k=255;W0:C@0 M@1 | K:F@2 F@3 B300@4");
    out.push_back("k=0;W0:C@0 T@1 Z@4 | K:F@2 F@3");
    out.push_back("k=255;W0:C@0 T@2 Z@5 | K:F@1 F@3 B300@4");
    out.push_back("k=0;W0:C M P | K:F F");
    out.push_back("k=0;W0:C T P Z | K:F F");
    out.push_back("k=0;W0:L@0 M@1 | K:B600@2 F@3");
    out.push_back("k=0;W0:C@0 A@1 D@2 | K:F@3 F@4");
    out.push_back("k=255;W0:C@0 A@2 D@3 | K:F@1 F@4 B300@5 F@6");
    out.push_back("k=0;W0:C A P D | K:F F");
  } else if (f == "hb") {  // C15 with the coordinator scanning slots while threads exit and IDs are reused
    if (kCap == 1) {
      with_prefixes("W0:I H C P D | W0:I H C P D | K:F F", {0});
      with_prefixes("W0:H I C D | W0:I H C P E D | K:F", {0, 255});
      with_prefixes("W0:I H P | W0:I H C D | K:F F", {0});
    } else if (kCap == 2) {
      with_prefixes("W0:I H C D | W0:I H C D | W0:I H C P D | K:F F", {0});
      with_prefixes("W0:I H C P D | W1:I H C D | K:F F", {0, 255});
    }
  } else if (f == "obs") {  // C16 observers
    with_prefixes("W0:Q N Q C Q D N Q | K:F F", {0, 254, 255});
    with_prefixes("W0:N Q N Q | K:F N F", {0, 255});
    with_prefixes("W0:C D | K:F F F", {0, 254, 255});
    with_prefixes("W0:C D Q | K:F Q F N Q", {0, 255});
    if (kCap >= 2) with_prefixes("W0:Q N Q N | W1:N Q C D Q | K:F F", {0, 255});
  } else if (f == "list1") {  // C17: list handed to a guard holder
    const std::vector<int> ks = {0, 1, 254, 255, 510, 511, 766, 767};
    with_prefixes("W0:L V P V D | K:F", ks);
    with_prefixes("W0:L V P V D | K:F F", ks);
    with_prefixes("W0:L V D | K:F F F", {254, 255, 510, 511, 767});
    with_prefixes("W0:L V P V D | K:F B256 F", {0, 255, 511});
    with_prefixes("W0:L V P V D | K:B256 F B600", {0, 255});
    with_prefixes("W0:L P V D | K:F F B300 F", {255, 511});
    with_prefixes("W0:L V D L V D | K:F F", {254, 255, 511});
    with_prefixes("W0:L V P V D | K:F B600", {255, 511});
    with_prefixes("W0:L V P V D | K:F B300 B300 F", {255});
  } else if (f == "list2" && kCap >= 2) {
    with_prefixes("W0:L V P V D | W1:L V D | K:F F", {255, 511, 767});
    with_prefixes("W0:L V P V D | W1:C P D | K:F F B256", {255, 511});
  } else if (f == "gen1" || f == "gen1s" || f == "gen1q" || f == "genR") {
    // systematic: every well-formed worker script over {C,L,E,V,P,D} (gen1q: plus the observers Q,N) up to 5 (gen1s,
    // gen1q: 4) operations (one guard at a time, E/V/D need a guard, V a list) against every coordinator script of a
    // small set, at a node boundary and away from one
    const size_t maxlen = f == "gen1" ? 5 : 4;
    const std::string alphabet = f == "gen1q" ? "CLEVPDQN" : "CLEVPD";
    std::vector<std::string> scripts;
    std::function<void(std::vector<char> &, bool, bool, bool)> rec = [&](std::vector<char> &cur, bool guard, bool list, bool any) {
      if (!cur.empty() && any && cur.back() != 'P') {
        std::string t;
        for (char c : cur) t += std::string(t.empty() ? "" : " ") + c;
        scripts.push_back(t);
      }
      if (cur.size() >= maxlen) return;
      for (char c : alphabet) {
        if ((c == 'C' || c == 'L') && guard) continue;
        if ((c == 'E' || c == 'D') && !guard) continue;
        if (c == 'V' && !list) continue;
        if (c == 'P' && (cur.empty() || cur.back() == 'P' || !guard)) continue;
        if ((c == 'Q' || c == 'N') && !cur.empty() && (cur.back() == 'Q' || cur.back() == 'N')) continue;
        if ((c == 'E' || c == 'V') && !cur.empty() && cur.back() == c) continue;
        cur.push_back(c);
        const bool g2 = (c == 'C' || c == 'L') ? true : (c == 'D' ? false : guard);
        const bool l2 = c == 'L' ? true : ((c == 'C' || c == 'D') ? false : list);
        rec(cur, g2, l2, any || c == 'C' || c == 'L');
        cur.pop_back();
      }
    };
    std::vector<char> cur;
    rec(cur, false, false, false);
    const std::vector<std::string> coords = f == "gen1"    ? std::vector<std::string>{"F", "F F", "F F F", "F B256", "B256 F", "F N Q F"}
                                            : f == "gen1q" ? std::vector<std::string>{"F F", "F N Q F"}
                                                           : std::vector<std::string>{"F F", "F B256"};
    const std::vector<int> ks = f == "gen1" ? std::vector<int>{0, 255, 511} : f == "gen1q" ? std::vector<int>{0, 255} : std::vector<int>{255};
    if (f == "genR") {
      // the same worker scripts performed by a thread that inherits the ID slot of an exited one (no forward in
      // between), with a long stall of the worker (B600) among the coordinator scripts; epoch in the middle of a node
      for (auto &w : scripts)
        for (const char *k : {"F F", "B600", "F B300 B300"}) with_prefixes("W0:C D || R0:" + w + " | K:" + k, {255, 300});
      return out;
    }
    for (auto &w : scripts)
      for (auto &k : coords) with_prefixes("W0:" + w + " | K:" + k, ks);
  } else if (f == "twomgr") {  // two manager instances, each with its own coordinator, forwarding concurrently
    out.push_back("k=0;W0:C P D | K:F F | K:f f");
    out.push_back("k=0;W0:C P E P D | K:F | K:f");
    out.push_back("k=255;W0:L V P V D | K:F F | K:f f");
    out.push_back("k=0;W0:Q N Q | K:F N F | K:f f");
  } else if (f == "gen2" && kCap >= 2) {
    // two workers with short scripts (all unordered pairs), coordinator F F, at a node boundary
    const std::vector<std::string> ws = {"C D", "C P D", "C E D", "L V D", "L P V D", "C P", "L V", "Q N"};
    for (size_t i = 0; i < ws.size(); ++i)
      for (size_t j = i; j < ws.size(); ++j) {
        with_prefixes("W0:" + ws[i] + " | W1:" + ws[j] + " | K:F F", {255});
        with_prefixes("W0:" + ws[i] + " | W0:" + ws[j] + " | K:F F", {255});  // identical probe starts
      }
  } else if (f == "public" && kCap >= 2) {  // coordinator reads through the public API
    with_prefixes("W0:C P E P D | K:F G F G", {0, 255});
    with_prefixes("W0:L V P V D | K:F G", {255, 511});
  }
  return out;
}

// sequential histories (C20): breadth-first over {enter_i, leave_i, F, F254} up to `depth`
struct Hist {
  std::vector<int> ops;  // 0:enter0 1:leave0 2:enter1 3:leave1 4:F 5:B254 6:exit0 7:exit1
};

// One thread per incarnation of a worker role: an exit event (Y) ends the role's current thread at that turn, a
// later enter of the role is performed by a fresh thread with the same probe start (it inherits the ID slot).
// Threads that have not exited wait for the end of the history (a final gated no-op), so a guard that the history
// leaves open really stays open while the remaining events happen.
std::string
HistProgram(const Hist &h)
{
  std::vector<std::string> w[2];
  bool open_thread[2] = {false, false};
  std::string k = "K:";
  int turn = 0;
  auto cur = [&](int r) -> std::string & {
    if (!open_thread[r]) {
      w[r].push_back("W0:");  // identical probe starts: the roles collide on the ID table as well
      open_thread[r] = true;
    }
    return w[r].back();
  };
  for (int o : h.ops) {
    std::string suffix = "@" + std::to_string(turn++) + " ";
    switch (o) {
      case 0:
        cur(0) += "L" + suffix;
        break;
      case 1:
        cur(0) += "D" + suffix;
        break;
      case 2:
        cur(1) += "C" + suffix;
        break;
      case 3:
        cur(1) += "D" + suffix;
        break;
      case 4:
        k += "F" + suffix;
        break;
      case 5:
        k += "B254" + suffix;
        break;
      default:
        cur(o - 6) += "Y" + suffix;
        open_thread[o - 6] = false;
        break;
    }
  }
  for (int r = 0; r < 2; ++r)
    if (open_thread[r]) w[r].back() += "P@" + std::to_string(turn++) + " ";
  std::string p = "k=0;";
  bool first = true;
  for (int r = 0; r < 2; ++r)
    for (auto &t : w[r]) {
      p += (first ? "" : "| ") + t;
      first = false;
    }
  if (first) p += "W0:";
  p += "| " + k;
  return p;
}

}  // namespace

int
main(int argc, char **argv)
{
  std::string mode = "explore", program, choices, outp;
  std::vector<std::string> families;
  int bound = 2, nproc = 16, depth = 0;
  double budget = 60, job_budget = 30;
  bool cache = true;
  for (int i = 1; i < argc; ++i) {
    std::string k = argv[i];
    auto val = [&]() -> std::string { return i + 1 < argc ? argv[++i] : ""; };
    if (k == "--replay") mode = "replay";
    else if (k == "--list") mode = "list";
    else if (k == "--family") families.push_back(val());
    else if (k == "--program") program = val();
    else if (k == "--choices") choices = val();
    else if (k == "--bound") bound = atoi(val().c_str());
    else if (k == "--dev") val();
    else if (k == "--nproc") nproc = atoi(val().c_str());
    else if (k == "--budget") budget = atof(val().c_str());
    else if (k == "--job-budget") job_budget = atof(val().c_str());
    else if (k == "--no-cache") cache = false;
    else if (k == "--out") outp = val();
    else if (k == "--histories") depth = atoi(val().c_str());
    else {
      fprintf(stderr, "unknown argument %s\n", k.c_str());
      return 2;
    }
  }
  vs::Config cfg;
  cfg.bound = bound;
  cfg.cache = cache;
  cfg.budget_s = job_budget;
  cfg.nrep = 3;
  cfg.max_steps = 200000;
  if (mode == "replay") {
    PROG = Parse(program);
    auto scn = MakeScenario();
    printf("== replay EpochManager(capacity %d) program: %s\n", kCap, program.c_str());
    auto r = vs::Replay(scn, cfg, vs::ChoicesFromString(choices), stdout);
    for (auto &v : r.violations) printf("VIOLATION-DETAIL [%s] %s: %s\n", v.props.c_str(), v.sig.c_str(), v.msg.c_str());
    fflush(stdout);
    _exit(r.violations.empty() ? 0 : 1);
  }
  FILE *out = outp.empty() ? stdout : fopen(outp.c_str(), "w");
  const double t0 = vs::Now();
  int rc = 0;
  size_t nprog = 0;
  auto emit = [&](const std::vector<vs::JobResult> &results) {
    for (auto &r : results) {
      fprintf(out, "{\"lock\":\"EpochManager\",\"program\":\"%s\",\"status\":%d,\"err\":\"%s\",\"result\":%s}\n",
              vs::JsonEscape(r.job.name).c_str(), r.status, vs::JsonEscape(r.err).c_str(), r.json.empty() ? "null" : r.json.c_str());
      if (r.status == 2) rc = 2;
      ++nprog;
    }
  };
  auto run = [&](const vs::Job &j) {
    PROG = Parse(j.name);
    auto scn = MakeScenario();
    return vs::ResultToJson(vs::Explore(scn, cfg));
  };
  if (depth > 0) {
    // breadth-first over sequential histories; the reference model prunes ill-formed ones and
    // canonical keys (epoch, pinned epochs, node chain = derived from the history) deduplicate
    struct St {
      Hist h;
      size_t epoch;
      long pin[2];
      int life[2];     // 0: role never used, 1: its thread is registered and alive, 2: its thread has exited
      int exits[2];    // exit events used (at most one per role and history)
      std::string reg; // order in which role threads registered with the manager (hidden state of any slot bookkeeping)
    };
    std::vector<St> frontier = {St{Hist{}, kInitial, {-1, -1}, {0, 0}, {0, 0}, ""}};
    std::set<std::string> seen;
    size_t states = 1, transitions = 0;
    for (int d = 1; d <= depth; ++d) {
      std::vector<St> next;
      std::vector<vs::Job> jobs;
      for (auto &s : frontier) {
        for (int o = 0; o < 8; ++o) {
          const int r = o < 4 ? o / 2 : (o >= 6 ? o - 6 : -1);
          if (r == 1 && kCap < 2) continue;
          St n = s;
          if (o == 0 || o == 2) {
            if (n.pin[r] >= 0) continue;
            n.pin[r] = static_cast<long>(n.epoch);
            if (n.life[r] != 1) {
              n.life[r] = 1;
              n.reg += static_cast<char>('0' + r);
            }
          } else if (o == 1 || o == 3) {
            if (n.pin[r] < 0) continue;
            n.pin[r] = -1;
          } else if (o >= 6) {
            if (n.life[r] != 1 || n.exits[r] != 0) continue;
            n.exits[r] = 1;
            n.life[r] = 2;
            n.pin[r] = -1;  // a guard still open dies with its thread
          } else {
            n.epoch += (o == 4) ? 1 : 254;
          }
          n.h.ops.push_back(o);
          ++transitions;
          // canonical key: what the future can depend on. Specified state: epoch, pins, node chain (a function of
          // the history of (epoch, pins) at forward time, derived by replaying the reference model). Hidden state a
          // correct or incorrect implementation may keep per thread slot: which role threads have registered, in
          // which order, and which of them have exited -- merged states must have the same futures, so these are
          // part of the key although the specification does not mention them.
          std::string key = std::to_string(n.epoch) + ":" + std::to_string(n.pin[0]) + ":" + std::to_string(n.pin[1]) + ":" + n.reg + ":" +
                            std::to_string(n.life[0]) + std::to_string(n.life[1]) + ":";
          {
            // replay the model to derive the node chain
            size_t e = kInitial;
            long pin[2] = {-1, -1};
            std::set<size_t> chain = {kInitial >> 8};
            for (int x : n.h.ops) {
              if (x == 0 || x == 2) {
                pin[x / 2] = static_cast<long>(e);
              } else if (x == 1 || x == 3) {
                pin[x / 2] = -1;
              } else if (x >= 6) {
                pin[x - 6] = -1;
              } else {
                int cnt = (x == 4) ? 1 : 254;
                for (int c = 0; c < cnt; ++c) {
                  ++e;
                  if ((e & 255U) == 0) chain.insert(e >> 8);
                  std::set<size_t> keep = {e >> 8, (e - 1) >> 8, kInitial >> 8};
                  for (long p : pin)
                    if (p >= 0) keep.insert(static_cast<size_t>(p) >> 8);
                  for (auto it = chain.begin(); it != chain.end();) {
                    if (!keep.count(*it)) {
                      it = chain.erase(it);
                    } else {
                      ++it;
                    }
                  }
                }
              }
            }
            for (auto c : chain) key += std::to_string(c) + ",";
          }
          jobs.push_back(vs::Job{HistProgram(n.h), key});
          if (seen.insert(key).second) {
            next.push_back(n);
            ++states;
          }
        }
      }
      if (vs::Now() - t0 > budget) {
        fprintf(out, "{\"summary\":true,\"histories_depth_completed\":%d,\"cut\":true}\n", d - 1);
        break;
      }
      cfg.bound = 0;
      cfg.iterate = false;
      auto results = vs::RunJobs(jobs, nproc, job_budget + 60, budget - (vs::Now() - t0), run);
      emit(results);
      fprintf(out, "{\"summary\":true,\"histories_depth_completed\":%d,\"model_states\":%zu,\"model_transitions\":%zu}\n", d, states, transitions);
      frontier.swap(next);
    }
  } else {
    std::vector<std::string> programs;
    if (!program.empty()) programs.push_back(program);
    for (auto &f : families) {
      auto ps = Family(f);
      programs.insert(programs.end(), ps.begin(), ps.end());
    }
    if (mode == "list") {
      for (auto &p : programs) puts(p.c_str());
      return 0;
    }
    std::vector<vs::Job> jobs;
    for (auto &p : programs) jobs.push_back(vs::Job{p, ""});
    emit(vs::RunJobs(jobs, nproc, job_budget + 60, budget, run));
  }
  fprintf(out, "{\"summary\":true,\"programs\":%zu,\"wall_s\":%.3f,\"introspection\":\"%s\"}\n", nprog, vs::Now() - t0,
          kIntrospectionNames[StaticIntrospectionMode<EpochManager>()]);
  if (out != stdout) fclose(out);
  return rc;
}
