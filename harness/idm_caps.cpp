// idm_caps.cpp — IDManager at larger capacities (C05, C14, C15): sequential claim / release histories.
//
// The schedule exploration of idm.cpp covers capacities 1-4 under all interleavings. What it cannot reach is the
// quantifier "for every capacity": index arithmetic that only goes wrong at a word boundary, a power of two or a
// larger table (bitmaps, rounding, modulo). This harness is built once per capacity N (DBGROUP_MAX_THREAD_NUM = N)
// and enumerates, for every probe-start pattern and every released holder of a small menu, one *sequential* history:
//   1. N threads claim IDs one after the other (each starts when the previous one holds its ID) and keep them,
//   2. an (N+1)-th thread asks for an ID (it has to wait), one holder exits, the waiting thread must get an ID; an
//      (N+2)-th thread then has to wait as well (the exit freed one ID, not more) until a second holder exits,
//   3. everybody exits; a fresh wave of N threads claims again.
// Threads are real threads without the scheduler (only one of them is ever inside the library, except the one
// waiting thread of step 2); the instrumentation layer is linked with the pass-through stubs below, which also
// supply the fake thread id (probe start). Output rows have the format of the exploration harnesses.
#include "dbgroup/thread/id_manager.hpp"
#include "vshim_off.hpp"
// ---- plain C++ ----
#include <atomic>
#include <chrono>
#include <condition_variable>
#include <cstdarg>
#include <cstdio>
#include <cstring>
#include <memory>
#include <mutex>
#include <set>
#include <string>
#include <thread>
#include <vector>

namespace vs
{
thread_local unsigned long tl_handle = 0;
bool
pre(const Op &)
{
  return false;
}
void
post(const Op &, uint64_t, uint64_t, bool)
{
}
void
plain_access(const void *, bool)
{
}
bool
active()
{
  return tl_handle != 0;
}
int
self()
{
  return -1;
}
unsigned long
fake_thread_handle()
{
  return tl_handle;
}
}  // namespace vs

using dbgroup::thread::IDManager;
constexpr size_t kCap = DBGROUP_MAX_THREAD_NUM;
using HB = vshim::WeakPtr<size_t>;

namespace
{
struct Stuck {};
[[noreturn]] void StuckExit();  // a thread is stuck inside the library: report what has been found and leave
struct Viol {
  std::string props, sig, msg;
};
std::vector<Viol> g_viols;
std::mutex g_vm;

std::string
Fmt(const char *f, ...)
{
  char buf[400];
  va_list ap;
  va_start(ap, f);
  vsnprintf(buf, sizeof buf, f, ap);
  va_end(ap);
  return buf;
}

void
Violate(const char *props, const std::string &sig, const std::string &msg)
{
  std::lock_guard<std::mutex> l{g_vm};
  for (auto &v : g_viols)
    if (v.sig == sig) return;
  g_viols.push_back({props, sig, msg});
}

unsigned long
HandleFor(size_t pos, size_t salt)
{
  size_t found = 0;
  for (unsigned long h = 1; h < 4000000; ++h) {
    std::thread::id id{static_cast<std::thread::native_handle_type>(h)};
    if (std::hash<std::thread::id>{}(id) % kCap == pos) {
      if (found++ == salt) return h;
    }
  }
  return 1 + salt;
}

struct Worker {
  std::thread th;
  std::mutex m;
  std::condition_variable cv;
  bool got = false;
  bool release = false;
  size_t id1 = ~0UL, id2 = ~0UL;
  HB hb;
  unsigned long handle = 0;

  void
  Start(unsigned long h)
  {
    handle = h;
    th = std::thread([this] {
      vs::tl_handle = handle;
      const size_t a = IDManager::GetThreadID();
      HB w = IDManager::GetHeartBeat();
      const size_t b = IDManager::GetThreadID();
      {
        std::unique_lock<std::mutex> l{m};
        id1 = a;
        id2 = b;
        hb = w;
        got = true;
        cv.notify_all();
        cv.wait(l, [this] { return release; });
      }
    });
  }
  bool
  WaitGot(double seconds)
  {
    std::unique_lock<std::mutex> l{m};
    return cv.wait_for(l, std::chrono::duration<double>(seconds), [this] { return got; });
  }
  bool
  HasGot()
  {
    std::lock_guard<std::mutex> l{m};
    return got;
  }
  void
  Release()
  {
    {
      std::lock_guard<std::mutex> l{m};
      release = true;
    }
    cv.notify_all();
    if (th.joinable()) th.join();
  }
};

constexpr double kPatience = 15.0;  // generous: the operations waited for take microseconds

size_t
PosOf(const std::string &pattern, size_t i)
{
  if (pattern == "zero") return 0;
  if (pattern == "last") return kCap - 1;
  if (pattern == "mid") return kCap / 2;
  return i % kCap;  // spread
}

// returns the number of threads used
size_t
RunScenario(const std::string &pattern, size_t k)
{
  const std::string tag = Fmt("cap=%zu;pattern=%s;k=%zu", kCap, pattern.c_str(), k);
  std::vector<std::unique_ptr<Worker>> ws;
  std::vector<long> holder(kCap, -1);
  size_t salt_of_pos_count = 0;
  std::vector<size_t> used_salt(kCap, 0);
  auto start = [&](size_t i) -> Worker * {
    const size_t pos = PosOf(pattern, i);
    ws.push_back(std::make_unique<Worker>());
    ws.back()->Start(HandleFor(pos, used_salt[pos]++));
    ++salt_of_pos_count;
    return ws.back().get();
  };
  auto check_claim = [&](Worker *w, size_t idx, const char *phase) {
    if (w->id1 >= kCap) {
      Violate("C05", "ID-OUT-OF-RANGE", Fmt("%s: thread %zu (%s) obtained id %zu, capacity is %zu", tag.c_str(), idx, phase, w->id1, kCap));
      return;
    }
    if (w->id1 != w->id2) Violate("C05", "ID-UNSTABLE", Fmt("%s: thread %zu obtained id %zu, then %zu", tag.c_str(), idx, w->id1, w->id2));
    if (holder[w->id1] >= 0) {
      // the holder is running, so its heartbeat is unexpired: an unexpired heartbeat no longer identifies one thread (C15)
      Violate("C05,C15", "ID-DUPLICATE", Fmt("%s: thread %zu (%s) obtained id %zu, which thread %ld holds (its heartbeat is not expired)", tag.c_str(), idx, phase, w->id1, holder[w->id1]));
    } else {
      holder[w->id1] = static_cast<long>(idx);
    }
    if (w->hb.RawExpired()) Violate("C15", "HEARTBEAT-EXPIRED-EARLY", Fmt("%s: thread %zu received an expired heartbeat", tag.c_str(), idx));
  };
  // 1. N holders, one after the other
  for (size_t i = 0; i < kCap; ++i) {
    Worker *w = start(i);
    if (!w->WaitGot(kPatience)) {
      Violate("C14", "CLAIM-NEVER-RETURNS", Fmt("%s: thread %zu of %zu did not obtain an id although only %zu ids are in use", tag.c_str(), i, kCap, i));
      StuckExit();  // cannot clean up a thread stuck in the library
    }
    check_claim(w, i, "first wave");
  }
  // 2. one more thread, then holder k exits
  Worker *extra = start(kCap);
  std::this_thread::sleep_for(std::chrono::milliseconds(2));
  if (extra->HasGot()) {
    check_claim(extra, kCap, "oversubscribed");
    if (extra->id1 < kCap) Violate("C05", "ID-WHILE-FULL", Fmt("%s: thread %zu obtained id %zu while all %zu ids are held", tag.c_str(), kCap, extra->id1, kCap));
  } else {
    const size_t freed = ws[k]->id1;
    HB old = ws[k]->hb;
    ws[k]->Release();
    if (freed < kCap) holder[freed] = -1;
    if (!old.RawExpired()) Violate("C15", "HEARTBEAT-ALIVE-AFTER-EXIT", Fmt("%s: heartbeat of exited thread %zu is not expired", tag.c_str(), k));
    if (!extra->WaitGot(kPatience)) {
      Violate("C14", "ID-NOT-RETURNED", Fmt("%s: holder %zu (id %zu) exited, yet the waiting thread did not obtain an id", tag.c_str(), k, freed));
      StuckExit();
    }
    check_claim(extra, kCap, "after a holder exited");
    // every id is held again (the release of one id must not have freed any other): a further thread has to wait
    // until a second holder exits
    Worker *extra2 = start(kCap + 1);
    std::this_thread::sleep_for(std::chrono::milliseconds(3));
    if (extra2->HasGot()) {
      check_claim(extra2, kCap + 1, "oversubscribed after one exit");
      if (extra2->id1 < kCap) {
        Violate("C05", "ID-WHILE-FULL", Fmt("%s: after holder %zu exited and its id was taken again, thread %zu obtained id %zu although all %zu ids are held", tag.c_str(), k,
                                            kCap + 1, extra2->id1, kCap));
      }
    } else if (kCap > 1) {
      const size_t k2 = (k + kCap / 2 + 1) % kCap == k ? (k + 1) % kCap : (k + kCap / 2 + 1) % kCap;
      const size_t freed2 = ws[k2]->id1;
      ws[k2]->Release();
      if (freed2 < kCap && holder[freed2] == static_cast<long>(k2)) holder[freed2] = -1;
      if (!extra2->WaitGot(kPatience)) {
        Violate("C14", "ID-NOT-RETURNED", Fmt("%s: holder %zu (id %zu) exited, yet the second waiting thread did not obtain an id", tag.c_str(), k2, freed2));
        StuckExit();
      }
      check_claim(extra2, kCap + 1, "after a second holder exited");
    } else {
      ws[kCap]->Release();  // capacity 1: the only holder is the first waiting thread
      holder[0] = -1;
      if (!extra2->WaitGot(kPatience)) {
        Violate("C14", "ID-NOT-RETURNED", Fmt("%s: the holder exited, yet the second waiting thread did not obtain an id", tag.c_str()));
        StuckExit();
      }
      check_claim(extra2, kCap + 1, "after a second holder exited");
    }
  }
  // 3. everybody exits, a fresh wave claims
  std::vector<HB> hbs;
  for (auto &w : ws) {
    hbs.push_back(w->hb);
    w->Release();
  }
  for (size_t i = 0; i < hbs.size(); ++i)
    if (!hbs[i].RawExpired()) Violate("C15", "HEARTBEAT-ALIVE-AFTER-EXIT", Fmt("%s: heartbeat of exited thread %zu is not expired", tag.c_str(), i));
  size_t used = ws.size();
  ws.clear();
  std::fill(holder.begin(), holder.end(), -1);
  for (size_t i = 0; i < kCap; ++i) {
    Worker *w = start(kCap - 1 - i);
    if (!w->WaitGot(kPatience)) {
      Violate("C14", "ID-NOT-RETURNED", Fmt("%s: after all threads exited, thread %zu of a fresh wave of %zu did not obtain an id", tag.c_str(), i, kCap));
      StuckExit();
    }
    check_claim(w, i, "second wave");
  }
  for (auto &w : ws) w->Release();
  used += ws.size();
  return used;
}

std::string
Esc(const std::string &s)
{
  std::string o;
  for (char c : s) {
    if (c == '"' || c == '\\') o += '\\';
    o += c;
  }
  return o;
}

void
Emit(FILE *out, const std::string &program, size_t threads, size_t v0, double wall)
{
  fprintf(out,
          "{\"lock\":\"IDManager\",\"program\":\"%s\",\"status\":%d,\"err\":\"\",\"result\":{\"executions\":1,\"steps\":%zu,\"choice_points\":0,\"states\":1,"
          "\"pruned\":0,\"blocked_execs\":1,\"max_trace\":0,\"abandoned\":0,\"bound_completed\":0,\"exhaustive\":true,\"wall_s\":%.4f,\"n_outcomes\":1,"
          "\"outcomes\":[],\"sample_trace\":\"\",\"violations\":[",
          Esc(program).c_str(), g_viols.size() > v0 ? 1 : 0, threads, wall);
  for (size_t i = v0; i < g_viols.size(); ++i) {
    fprintf(out, "%s{\"props\":\"%s\",\"sig\":\"%s\",\"msg\":\"%s\",\"fatal\":false,\"cost\":0,\"choices\":\"\"}", i > v0 ? "," : "", g_viols[i].props.c_str(),
            Esc(g_viols[i].sig).c_str(), Esc(g_viols[i].msg).c_str());
  }
  fprintf(out, "]}}\n");
}

FILE *g_out = nullptr;
std::string g_cur_program;
size_t g_cur_v0 = 0, g_rows = 0;
bool g_replay = false;

[[noreturn]] void
StuckExit()
{
  if (g_replay) {
    for (auto &v : g_viols) printf("VIOLATION-DETAIL [%s] %s: %s\n", v.props.c_str(), v.sig.c_str(), v.msg.c_str());
    fflush(stdout);
    _exit(1);
  }
  if (g_out != nullptr) {
    Emit(g_out, g_cur_program, 0, g_cur_v0, 0.0);
    fprintf(g_out, "{\"summary\":true,\"programs\":%zu,\"wall_s\":0,\"stuck\":true}\n", g_rows + 1);
    fflush(g_out);
  }
  _exit(0);  // threads stuck inside the library cannot be joined
}

}  // namespace

int
main(int argc, char **argv)
{
  std::string mode = "explore", program, outp;
  for (int i = 1; i < argc; ++i) {
    std::string a = argv[i];
    auto val = [&]() -> std::string { return i + 1 < argc ? argv[++i] : ""; };
    if (a == "--replay") mode = "replay";
    else if (a == "--list") mode = "list";
    else if (a == "--program") program = val();
    else if (a == "--out") outp = val();
    else if (a == "--family" || a == "--bound" || a == "--dev" || a == "--budget" || a == "--job-budget" || a == "--nproc" || a == "--choices") val();
  }
  std::vector<std::pair<std::string, size_t>> scenarios;
  for (const char *pattern : {"zero", "last", "mid", "spread"}) {
    std::set<size_t> ks = {0, kCap - 1, kCap / 2};
    for (size_t k : ks) scenarios.emplace_back(pattern, k);
  }
  if (mode == "list") {
    for (auto &s : scenarios) printf("cap=%zu;pattern=%s;k=%zu\n", kCap, s.first.c_str(), s.second);
    return 0;
  }
  if (mode == "replay") {
    char pat[32] = {0};
    size_t cap = 0, k = 0;
    if (sscanf(program.c_str(), "cap=%zu;pattern=%31[a-z];k=%zu", &cap, pat, &k) != 3 || cap != kCap) {
      printf("bad scenario '%s' for capacity %zu\n", program.c_str(), kCap);
      return 2;
    }
    printf("== replay IDManager(capacity %zu) sequential scenario: %s\n", kCap, program.c_str());
    g_replay = true;
    try {
      RunScenario(pat, k);
    } catch (const Stuck &) {
    }
    for (auto &v : g_viols) printf("VIOLATION-DETAIL [%s] %s: %s\n", v.props.c_str(), v.sig.c_str(), v.msg.c_str());
    fflush(stdout);
    _exit(g_viols.empty() ? 0 : 1);
  }
  FILE *out = outp.empty() ? stdout : fopen(outp.c_str(), "w");
  g_out = out;
  size_t n = 0;
  for (auto &s : scenarios) {
    const auto t0 = std::chrono::steady_clock::now();
    const size_t v0 = g_viols.size();
    g_cur_program = Fmt("cap=%zu;pattern=%s;k=%zu", kCap, s.first.c_str(), s.second);
    g_cur_v0 = v0;
    g_rows = n;
    // signatures are per scenario: let the same kind of violation be reported for each scenario it occurs in
    size_t threads = 0;
    bool stuck = false;
    try {
      threads = RunScenario(s.first, s.second);
    } catch (const Stuck &) {
      stuck = true;
    }
    const double wall = std::chrono::duration<double>(std::chrono::steady_clock::now() - t0).count();
    Emit(out, Fmt("cap=%zu;pattern=%s;k=%zu", kCap, s.first.c_str(), s.second), threads, v0, wall);
    fflush(out);
    ++n;
    if (stuck) {
      // a thread is stuck inside the library: nothing more can be run in this process
      fprintf(out, "{\"summary\":true,\"programs\":%zu,\"wall_s\":0}\n", n);
      fflush(out);
      _exit(0);
    }
  }
  fprintf(out, "{\"summary\":true,\"programs\":%zu,\"wall_s\":0}\n", n);
  if (out != stdout) fclose(out);
  return 0;
}
