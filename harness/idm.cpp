// idm.cpp — exploration harness for IDManager (C05, C14, C15).
// Built with DBGROUP_MAX_THREAD_NUM = capacity (1..4).
//
// program text:  "<pos>:<script> | <pos>:<script> ... [ || <pos>:<script> | ... ]"
//   pos    = probe start residue (hash(thread id) % capacity) forced through the fake thread id
//   script = blank separated ops: G (GetThreadID + checks), H (GetHeartBeat), P (scheduling point),
//            B (barrier: waits until every thread of its wave has arrived; waiting costs no preemption),
//            S (stay alive until every other thread has finished or waits: a long-lived thread at no preemption cost),
//            K<t> (an observer pins the heartbeat handed to thread t with weak_ptr::lock()), U (drops the pin)
//   threads after "||" form a second wave that starts when every first-wave thread has exited.
#include "dbgroup/thread/id_manager.hpp"
#include "vshim_off.hpp"
// ---- plain C++ ----
#include <cinttypes>
#include <cstdarg>
#include <cstring>
#include <set>
#include <sstream>

#include "vs_engine.hpp"

using dbgroup::thread::IDManager;
constexpr int kCap = DBGROUP_MAX_THREAD_NUM;
using HB = vshim::WeakPtr<size_t>;

namespace
{
constexpr int kMaxT = vs::kMaxThreads;

struct ThreadProg {
  int pos = 0;
  std::vector<std::string> ops;
};
struct Program {
  std::string text;
  std::vector<ThreadProg> th;
  int wave2_from = -1;
  int salt = 0;  // selects other fake thread ids with the same probe start (higher hash bits differ)
} PROG;

Program
Parse(const std::string &text)
{
  Program p;
  p.text = text;
  std::string t = text;
  if (t.rfind("s=", 0) == 0) {
    auto sc = t.find(';');
    p.salt = atoi(t.substr(2, sc - 2).c_str());
    t = t.substr(sc + 1);
  }
  size_t w = t.find("||");
  std::vector<std::string> parts;
  auto split = [&](const std::string &s) {
    std::stringstream ss(s);
    std::string thr;
    while (std::getline(ss, thr, '|')) {
      ThreadProg tp;
      auto c = thr.find(':');
      tp.pos = atoi(thr.substr(0, c).c_str());
      std::stringstream ts(thr.substr(c + 1));
      std::string tok;
      while (ts >> tok) tp.ops.push_back(tok);
      p.th.push_back(tp);
    }
  };
  if (w == std::string::npos) {
    split(t);
  } else {
    split(t.substr(0, w));
    p.wave2_from = static_cast<int>(p.th.size());
    split(t.substr(w + 2));
  }
  return p;
}

struct HbRec {
  HB hb;
  int owner = -1;
  bool used = false;
};

struct Ghost {
  int holder[kCap];            // thread currently holding id k while executing user code, -1 none
  int id_of[kMaxT];            // id obtained by thread t, -1 none
  bool body_done[kMaxT];
  HbRec hbs[kMaxT];            // heartbeat handed to thread t (one per thread)
  vshim::SharedPtr<size_t> pins[kMaxT];  // observer thread t's pinned heartbeat (op K)
  vshim::Atomic<uint64_t> barrier{0};  // op B
  vshim::Atomic<uint64_t> release{0};  // op S: advanced by the quiescence hook
  int staying = 0;                     // threads inside op S
  bool in_lib[kMaxT];                  // thread t is inside GetThreadID / GetHeartBeat
  bool user_pinned[kMaxT];     // the heartbeat of thread t was pinned by a client: its expiry is the client's business
  int hb_id[kMaxT];            // id the heartbeat of thread t belongs to
  char results[kMaxT][24];
  long dummy = 0;
} *GH;

std::string
Fmt(const char *f, ...)
{
  char buf[400];
  va_list ap;
  va_start(ap, f);
  vsnprintf(buf, sizeof buf, f, ap);
  va_end(ap);
  return buf;
}

void
CheckLiveHeartbeats(int tid, const char *when)
{
  // a heartbeat is not expired while its thread has not returned from its body
  for (int u = 0; u < static_cast<int>(PROG.th.size()); ++u) {
    if (!GH->hbs[u].used || GH->body_done[u]) continue;
    if (GH->hbs[u].hb.RawExpired()) {
      vs::Violate("C15", "HEARTBEAT-EXPIRED-EARLY",
                  Fmt("the heartbeat of running thread T%d (id %d) is expired (%s, observed by T%d)", u, GH->hb_id[u], when, tid));
    }
  }
}

void
Body(int tid)
{
  const auto &tp = PROG.th[tid];
  static char labels[kMaxT][32];
  int step = 0;
  for (const auto &op : tp.ops) {
    snprintf(labels[tid], sizeof labels[tid], "%s@%d", op.c_str(), step);
    vs::SetCall(labels[tid]);
    uint64_t h = vs::Mix(static_cast<uint64_t>(step), static_cast<uint64_t>(GH->id_of[tid] + 1));
    h = vs::Mix(h, GH->hbs[tid].used ? 1 : 0);
    vs::Boundary(h);
    if (op == "G") {
      const bool first = GH->id_of[tid] < 0;
      GH->in_lib[tid] = true;
      const size_t id = IDManager::GetThreadID();
      vs::NoSchedule ns;
      GH->in_lib[tid] = false;
      if (id >= static_cast<size_t>(kCap)) {
        vs::Violate("C05", "ID-OUT-OF-RANGE", Fmt("T%d obtained id %zu, capacity is %d", tid, id, kCap));
      } else if (first) {
        const int other = GH->holder[id];
        if (other >= 0 && other != tid) {
          vs::Violate("C05", "ID-DUPLICATE",
                      Fmt("T%d obtained id %zu while T%d, still executing user code, holds the same id", tid, id, other));
        }
        // C15: all heartbeats handed out earlier for this id must be expired by now
        for (int u = 0; u < static_cast<int>(PROG.th.size()); ++u) {
          if (u == tid || !GH->hbs[u].used || GH->hb_id[u] != static_cast<int>(id) || GH->user_pinned[u]) continue;
          if (!GH->hbs[u].hb.RawExpired()) {
            vs::Violate("C15", "HEARTBEAT-ALIVE-AT-REUSE",
                        Fmt("id %zu was given to T%d while the heartbeat handed out to its earlier owner T%d is not expired", id, tid, u));
          }
        }
        GH->holder[id] = tid;
        GH->id_of[tid] = static_cast<int>(id);
        snprintf(GH->results[tid], sizeof GH->results[tid], "%zu", id);
      } else if (static_cast<int>(id) != GH->id_of[tid]) {
        vs::Violate("C05", "ID-UNSTABLE", Fmt("T%d obtained id %d first and id %zu on a later call", tid, GH->id_of[tid], id));
      }
      CheckLiveHeartbeats(tid, "at GetThreadID return");
    } else if (op == "H") {
      GH->in_lib[tid] = true;
      HB hb = IDManager::GetHeartBeat();
      vs::NoSchedule ns;
      GH->in_lib[tid] = false;
      if (hb.RawExpired()) vs::Violate("C15", "HEARTBEAT-EXPIRED-EARLY", Fmt("T%d received an expired heartbeat", tid));
      GH->hbs[tid].hb = hb;
      GH->hbs[tid].owner = tid;
      GH->hbs[tid].used = true;
      if (GH->id_of[tid] < 0) {
        // GetHeartBeat claimed the id implicitly: learn it without a scheduling point
        const size_t id = IDManager::GetThreadID();
        if (id < static_cast<size_t>(kCap)) {
          const int other = GH->holder[id];
          if (other >= 0 && other != tid) {
            vs::Violate("C05", "ID-DUPLICATE", Fmt("T%d obtained id %zu (via GetHeartBeat) while T%d holds it", tid, id, other));
          }
          for (int u = 0; u < static_cast<int>(PROG.th.size()); ++u) {
            if (u == tid || !GH->hbs[u].used || GH->hb_id[u] != static_cast<int>(id) || GH->user_pinned[u]) continue;
            if (!GH->hbs[u].hb.RawExpired()) {
              vs::Violate("C15", "HEARTBEAT-ALIVE-AT-REUSE",
                          Fmt("id %zu was given to T%d (via GetHeartBeat) while the heartbeat of its earlier owner T%d is not expired", id, tid, u));
            }
          }
          GH->holder[id] = tid;
          GH->id_of[tid] = static_cast<int>(id);
          snprintf(GH->results[tid], sizeof GH->results[tid], "%zu", id);
        }
      }
      GH->hb_id[tid] = GH->id_of[tid];
    } else if (op == "P") {
      vs::PlainPoint(&GH->dummy, false);
      vs::NoSchedule ns;
      CheckLiveHeartbeats(tid, "while running");
    } else if (op == "B") {
      const int lo = (PROG.wave2_from >= 0 && tid >= PROG.wave2_from) ? PROG.wave2_from : 0;
      const int hi = (PROG.wave2_from >= 0 && tid < PROG.wave2_from) ? PROG.wave2_from : static_cast<int>(PROG.th.size());
      uint64_t want = 0;
      for (int u = lo; u < hi; ++u)
        for (auto &o : PROG.th[u].ops) want += (o == "B");
      if (lo > 0)
        for (int u = 0; u < lo; ++u)
          for (auto &o : PROG.th[u].ops) want += (o == "B");
      GH->barrier.fetch_add(1, std::memory_order_seq_cst);
      while (GH->barrier.load(std::memory_order_seq_cst) < want) vshim::Pause();
    } else if (op == "S") {
      const uint64_t my = GH->release.load(std::memory_order_seq_cst);
      {
        vs::NoSchedule ns;
        ++GH->staying;
      }
      while (GH->release.load(std::memory_order_seq_cst) == my) vshim::Pause();
      vs::NoSchedule ns;
      --GH->staying;
      CheckLiveHeartbeats(tid, "after a long stay");
    } else if (op[0] == 'K') {
      // a client pins somebody's heartbeat (weak_ptr::lock is part of the type the library hands out)
      const int u = atoi(op.c_str() + 1);
      vs::PlainPoint(&GH->dummy, false);
      if (u >= 0 && u < static_cast<int>(PROG.th.size()) && GH->hbs[u].used) {
        auto sp = GH->hbs[u].hb.lock();
        vs::NoSchedule ns;
        if (sp) {
          GH->user_pinned[u] = true;
          GH->pins[tid] = std::move(sp);
        }
      }
    } else if (op == "U") {
      GH->pins[tid].reset();
    }
    ++step;
  }
  // body returns: the thread begins its exit cleanup
  vs::NoSchedule ns;
  GH->body_done[tid] = true;
  if (GH->id_of[tid] >= 0 && GH->holder[GH->id_of[tid]] == tid) GH->holder[GH->id_of[tid]] = -1;
}

void
Setup()
{
  GH = new Ghost{};
  for (auto &h : GH->holder) h = -1;
  for (auto &i : GH->id_of) i = -1;
  for (auto &b : GH->body_done) b = false;
  for (auto &i : GH->hb_id) i = -1;
  for (auto &r : GH->results) r[0] = 0;
  for (auto &b : GH->user_pinned) b = false;
  for (auto &w : GH->in_lib) w = false;
}

void
Teardown()
{
  // after join every heartbeat is expired
  for (int u = 0; u < static_cast<int>(PROG.th.size()); ++u) {
    if (GH->pins[u]) GH->pins[u].reset();
  }
  for (int u = 0; u < static_cast<int>(PROG.th.size()); ++u) {
    if (GH->hbs[u].used && !GH->hbs[u].hb.RawExpired()) {
      vs::Violate("C15", "HEARTBEAT-ALIVE-AFTER-EXIT", Fmt("the heartbeat of T%d is not expired although the thread has exited", u));
    }
  }
  delete GH;
  GH = nullptr;
}

uint64_t
Digest()
{
  uint64_t h = 3;
  for (int k = 0; k < kCap; ++k) h = vs::Mix(h, static_cast<uint64_t>(GH->holder[k] + 1));
  for (int t = 0; t < static_cast<int>(PROG.th.size()); ++t) {
    h = vs::Mix(h, static_cast<uint64_t>(GH->id_of[t] + 1) * 4 + (GH->body_done[t] ? 2 : 0) + (GH->hbs[t].used ? 1 : 0));
    if (GH->hbs[t].used) h = vs::Mix(h, GH->hbs[t].hb.RawExpired() ? 5 : 6);
    h = vs::Mix(h, (GH->pins[t] ? 2 : 0) + (GH->user_pinned[t] ? 1 : 0) + 4 * static_cast<uint64_t>(GH->in_lib[t]));
  }
  return h;
}

std::string
Outcome()
{
  std::string s;
  for (size_t t = 0; t < PROG.th.size(); ++t) s += std::string(GH->results[t]) + ",";
  return s;
}

unsigned long
HandleFor(int pos, int salt)
{
  // smallest fake handles whose hash residue is `pos` (distinct per thread through salt)
  int found = 0;
  for (unsigned long h = 1; h < 100000; ++h) {
    std::thread::id id{static_cast<std::thread::native_handle_type>(h)};
    if (static_cast<int>(std::hash<std::thread::id>{}(id) % static_cast<size_t>(kCap)) == pos) {
      if (found++ == salt) return h;
    }
  }
  return 1;
}

vs::Scenario
MakeScenario()
{
  vs::Scenario s;
  s.nthreads = static_cast<int>(PROG.th.size());
  s.gated_from = PROG.wave2_from;
  s.deadlock_props = "C14";  // a GetThreadID call that never returns
  s.on_quiescent = []() -> bool {
    // called when every unfinished thread is really waiting (it came back to the same wait after having been released
    // with fresh counters and nobody has written anything): threads in op S, in a barrier, or inside the library
    if (!GH || GH->staying <= 0) return false;
    // C14: as long as fewer than DBGROUP_MAX_THREAD_NUM threads hold IDs, a call that asks for an ID returns. A thread
    // that is stuck inside GetThreadID / GetHeartBeat now, while the threads that hold IDs are fewer than the IDs and
    // nothing else is going on, will not return until somebody exits: an ID has been lost or cannot be found.
    int holders = 0, stuck = -1;
    for (int t = 0; t < static_cast<int>(PROG.th.size()); ++t) {
      if (GH->id_of[t] >= 0 && !GH->body_done[t]) ++holders;
      if (GH->in_lib[t] && GH->id_of[t] < 0) stuck = t;
    }
    if (stuck >= 0 && holders < kCap) {
      vs::Violate("C14", "STUCK-WITH-FREE-ID",
                  Fmt("T%d does not return from GetThreadID/GetHeartBeat although only %d of %d IDs are held by running threads and every other thread is idle", stuck,
                      holders, kCap));
    }
    GH->release.RawStore(GH->release.Raw() + 1);
    return true;
  };
  s.setup = Setup;
  s.body = Body;
  s.teardown = Teardown;
  s.digest = Digest;
  s.outcome = Outcome;
  s.name_of = [](const void *a) -> std::string {
    if (GH && a == &GH->dummy) return "harness.point";
    auto bi = vs::BlockOf(a);
    if (bi.st != vs::B_NONE) return Fmt("heartbeat-ctrl[T%d]", bi.owner);
    return "id-flag@" + Fmt("%zx", reinterpret_cast<size_t>(a) & 0xfff);
  };
  int per_pos[16] = {0};
  for (int t = 0; t < s.nthreads; ++t) {
    const int pos = PROG.th[t].pos % kCap;
    s.handles[t] = HandleFor(pos, per_pos[pos]++ + PROG.salt * 5);
  }
  return s;
}

// --- families -----------------------------------------------------------------------------
void
Multisets(int n, int from, std::vector<int> &cur, std::vector<std::vector<int>> &out)
{
  if (static_cast<int>(cur.size()) == n) {
    out.push_back(cur);
    return;
  }
  for (int p = from; p < kCap; ++p) {
    cur.push_back(p);
    Multisets(n, p, cur, out);
    cur.pop_back();
  }
}

std::vector<std::string>
Family(const std::string &f)
{
  std::vector<std::string> out;
  auto wave = [&](const std::vector<int> &pos, const std::string &script) {
    std::string s;
    for (size_t i = 0; i < pos.size(); ++i) {
      if (i) s += " | ";
      s += std::to_string(pos[i]) + ":" + script;
    }
    return s;
  };
  auto gen = [&](int nlo, int nhi, const std::string &script, bool second_wave) {
    for (int n = nlo; n <= nhi; ++n) {
      std::vector<std::vector<int>> ms;
      std::vector<int> cur;
      Multisets(n, 0, cur, ms);
      for (auto &m : ms) {
        std::string p = wave(m, script);
        if (second_wave) {
          std::vector<int> w2(static_cast<size_t>(kCap), 0);
          p += " || " + wave(w2, "G H G S");  // the second wave stays: an ID that did not come back leaves one of its threads stuck
        }
        out.push_back(p);
      }
    }
  };
  if (f == "basic") {  // up to capacity threads, all start multisets
    gen(1, kCap, "G H P G", false);
    gen(2, std::min(kCap, 3), "H G P G", false);
  } else if (f == "over") {  // oversubscribed by one and two
    gen(kCap + 1, kCap + 2, "G H P G", false);
  } else if (f == "salted") {  // as many threads as IDs, equal probe starts, several fake-id choices
    for (int salt = 1; salt <= 6; ++salt)
      for (int pos = 0; pos < kCap; ++pos) {
        std::vector<int> m(static_cast<size_t>(kCap), pos);
        out.push_back("s=" + std::to_string(salt) + ";" + wave(m, "G H P G"));
        out.push_back("s=" + std::to_string(salt) + ";" + wave(m, "G H S"));  // holders stay: a thread that cannot find the free ID is stuck
        if (kCap <= 3) out.push_back("s=" + std::to_string(salt) + ";" + wave({pos}, "G P") + " || " + wave(m, "G H G S"));
      }
  } else if (f == "over1") {
    gen(kCap + 1, kCap + 1, "G H P G", false);
  } else if (f == "reuse1") {  // a small first wave, then a fresh wave of `capacity` threads
    gen(1, 2, "G H P G", true);
  } else if (f == "reuse") {  // first wave then a fresh wave of `capacity` threads
    gen(1, std::min(kCap + 1, 3), "G H P G", true);
    if (kCap <= 2) gen(kCap + 2, kCap + 2, "G H G", true);
  } else if (f == "churn") {
    // every ID has been used and given back (a free-list or a high-water mark is warm), then an oversubscribed
    // wave in which threads start, stay and exit concurrently
    {
      std::vector<int> w1(static_cast<size_t>(kCap), 0), w2(static_cast<size_t>(kCap + 2), 0);
      out.push_back(wave(w1, "G B") + " || " + wave(w2, "G P"));
      if (kCap >= 2) {
        for (int i = 0; i < kCap; ++i) w1[static_cast<size_t>(i)] = i;
        out.push_back(wave(w1, "G B") + " || " + wave(w2, "G P"));
      }
    }
  } else if (f == "stay" || f == "stayh") {
    // warm-up wave as in `churn`; then long-lived holders (S) next to threads that come and go, with or without a
    // pausing thread (P) that may exit at any moment; `stayh` also records heartbeats (C15)
    const std::string g = f == "stayh" ? "G H" : "G";
    std::vector<int> w1(static_cast<size_t>(kCap), 0);
    for (int stayers = 1; stayers <= std::min(kCap, 2); ++stayers) {
      for (int pausers = 0; pausers <= 1; ++pausers) {
        for (int goers = 1; goers <= 3; ++goers) {
          if (stayers + pausers + goers > 4 || pausers + goers < 2) continue;
          std::string w2;
          for (int i = 0; i < stayers; ++i) w2 += std::string(w2.empty() ? "" : " | ") + "0:" + g + " S";
          for (int i = 0; i < pausers; ++i) w2 += " | 0:" + g + " P";
          for (int i = 0; i < goers; ++i) w2 += " | 0:" + g;
          out.push_back(wave(w1, "G B") + " || " + w2);
        }
      }
    }
    if (kCap == 1) {
      // without a warm-up wave: the pausing thread is the first owner of the ID
      out.push_back("0:" + g + " P | 0:" + g + " | 0:" + g + " S");
      out.push_back("0:" + g + " P | 0:" + g + " | 0:" + g + " S | 0:" + g);
    }
  } else if (f == "pinned") {
    // a client thread that never asks for an ID pins the heartbeat of an exiting thread for a while
    for (int pos = 0; pos < kCap; ++pos) {
      std::vector<int> w2(static_cast<size_t>(kCap), pos);
      out.push_back("0:G H P | 0:P K0 P U || " + wave(w2, "G H G S"));
      out.push_back("0:H P | 0:P K0 P || " + wave(w2, "G H G S"));
    }
  } else if (f == "big") {
    gen(kCap + 1, kCap + 1, "G H P G", true);
  }
  return out;
}

}  // namespace

int
main(int argc, char **argv)
{
  std::string mode = "explore", program, choices, outp;
  std::vector<std::string> families;
  int bound = 2, nproc = 16;
  double budget = 60, job_budget = 30;
  bool cache = true;
  for (int i = 1; i < argc; ++i) {
    std::string k = argv[i];
    auto val = [&]() -> std::string { return i + 1 < argc ? argv[++i] : ""; };
    if (k == "--replay") mode = "replay";
    else if (k == "--list") mode = "list";
    else if (k == "--family") families.push_back(val());
    else if (k == "--program") program = val();
    else if (k == "--choices") choices = val();
    else if (k == "--bound") bound = atoi(val().c_str());
    else if (k == "--dev") val();
    else if (k == "--nproc") nproc = atoi(val().c_str());
    else if (k == "--budget") budget = atof(val().c_str());
    else if (k == "--job-budget") job_budget = atof(val().c_str());
    else if (k == "--no-cache") cache = false;
    else if (k == "--out") outp = val();
    else {
      fprintf(stderr, "unknown argument %s\n", k.c_str());
      return 2;
    }
  }
  vs::Config cfg;
  cfg.bound = bound;
  cfg.cache = cache;
  cfg.budget_s = job_budget;
  cfg.nrep = 3;
  if (mode == "replay") {
    PROG = Parse(program);
    auto scn = MakeScenario();
    printf("== replay IDManager(capacity %d) program: %s\n", kCap, program.c_str());
    auto r = vs::Replay(scn, cfg, vs::ChoicesFromString(choices), stdout);
    for (auto &v : r.violations) printf("VIOLATION-DETAIL [%s] %s: %s\n", v.props.c_str(), v.sig.c_str(), v.msg.c_str());
    fflush(stdout);
    _exit(r.violations.empty() ? 0 : 1);
  }
  std::vector<std::string> programs;
  if (!program.empty()) programs.push_back(program);
  for (auto &f : families) {
    auto ps = Family(f);
    programs.insert(programs.end(), ps.begin(), ps.end());
  }
  if (mode == "list") {
    for (auto &p : programs) puts(p.c_str());
    return 0;
  }
  std::vector<vs::Job> jobs;
  for (auto &p : programs) jobs.push_back(vs::Job{p, ""});
  const double t0 = vs::Now();
  auto results = vs::RunJobs(jobs, nproc, job_budget + 60, budget, [&](const vs::Job &j) {
    PROG = Parse(j.name);
    auto scn = MakeScenario();
    return vs::ResultToJson(vs::Explore(scn, cfg));
  });
  FILE *out = outp.empty() ? stdout : fopen(outp.c_str(), "w");
  int rc = 0;
  for (auto &r : results) {
    fprintf(out, "{\"lock\":\"IDManager\",\"program\":\"%s\",\"status\":%d,\"err\":\"%s\",\"result\":%s}\n", vs::JsonEscape(r.job.name).c_str(),
            r.status, vs::JsonEscape(r.err).c_str(), r.json.empty() ? "null" : r.json.c_str());
    if (r.status == 2) rc = 2;
  }
  fprintf(out, "{\"summary\":true,\"programs\":%zu,\"wall_s\":%.3f}\n", results.size(), vs::Now() - t0);
  if (out != stdout) fclose(out);
  return rc;
}
