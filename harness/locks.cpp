// locks.cpp — exploration harness for PessimisticLock (LK=0), OptimisticLock (LK=1), MCSLock (LK=2).
//
// A *program* is a text: thread scripts separated by '|', operations separated by blanks.
// Every operation is executed against the real lock class by a small interpreter running in a
// virtual thread; monitors (grant registry, version ghost, happens-before sets, arrival order,
// heap shadow) are evaluated at every step of every explored interleaving.
#if LK == 0
#include "dbgroup/lock/pessimistic_lock.hpp"
#elif LK == 1
#include "dbgroup/lock/optimistic_lock.hpp"
#else
#include "dbgroup/lock/mcs_lock.hpp"
#endif
#include "vshim_off.hpp"
// ---- plain C++ from here on ----
#include <sys/resource.h>
#include <sys/wait.h>
#include <unistd.h>

#include <cinttypes>
#include <cstring>
#include <fstream>
#include <map>
#include <optional>
#include <set>
#include <sstream>

#include "lock_programs.hpp"
#include "vs_engine.hpp"

#if LK == 0
using Lock = dbgroup::lock::PessimisticLock;
static const char *kLockName = "PessimisticLock";
#elif LK == 1
using Lock = dbgroup::lock::OptimisticLock;
static const char *kLockName = "OptimisticLock";
#else
using Lock = dbgroup::lock::MCSLock;
static const char *kLockName = "MCSLock";
#endif
using SG = Lock::SGuard;
using SIXG = Lock::SIXGuard;
using XG = Lock::XGuard;

static_assert(sizeof(Lock) >= 8, "lock classes hold one 64-bit word (possibly padded)");

namespace
{
constexpr int kLocks = 2;
constexpr int kSlots = 2;
constexpr int kMaxT = 4;

enum Mode : uint8_t { M_S = 0, M_SIX = 1, M_X = 2 };
const char *kModeName[] = {"S", "SIX", "X"};

inline bool
Conflict(Mode a, Mode b)
{
  if (a == M_X || b == M_X) return true;
  return a == M_SIX && b == M_SIX;
}

/*----------------------------------------------------------------------------------------------
 * program representation
 *--------------------------------------------------------------------------------------------*/
struct OpCode {
  std::string text;
  char a = 0, b = 0, c = 0;  // raw argument characters
  std::string mn;            // mnemonic
};

struct Program {
  std::string text;
  std::vector<std::vector<OpCode>> th;
  bool republish = false;  // uses SetVersion to republish an earlier/same value
  uint32_t start_version = 0;
};

Program
Parse(const std::string &text)
{
  Program p;
  p.text = text;
  std::string body = text;
  // optional "v=<hex>;" prefix: starting version of lock 0 (OptimisticLock)
  if (body.rfind("v=", 0) == 0) {
    auto sc = body.find(';');
    p.start_version = static_cast<uint32_t>(strtoul(body.substr(2, sc - 2).c_str(), nullptr, 16));
    body = body.substr(sc + 1);
  }
  std::stringstream ss(body);
  std::string thr;
  while (std::getline(ss, thr, '|')) {
    std::vector<OpCode> ops;
    std::stringstream ts(thr);
    std::string tok;
    while (ts >> tok) {
      OpCode o;
      o.text = tok;
      size_t k = 0;
      // mnemonic = leading characters up to 2 (all mnemonics are 1-2 chars; see Exec)
      static const char *two[] = {"LS", "L6", "LX", "DS", "D6", "DX", "ES", "E6", "EX", "MS", "M6",
                                  "MX", "CS", "C6", "CX", "UP", "DN", "GV", "VV", "TS", "T6", "TX",
                                  "RO", "PR", "CV", "DC", "MC", "CC", "SV", "XG", nullptr};
      bool found = false;
      for (int i = 0; two[i]; ++i)
        if (tok.rfind(two[i], 0) == 0) {
          o.mn = two[i];
          k = 2;
          found = true;
          break;
        }
      if (!found) {
        o.mn = tok.substr(0, 1);
        k = 1;
      }
      if (k < tok.size()) o.a = tok[k++];
      if (k < tok.size()) o.b = tok[k++];
      if (k < tok.size()) o.c = tok[k++];
      if (o.mn == "SV" && (o.b == 's' || o.b == 'q' || o.b == '0' || o.b == 'm')) p.republish = true;
      ops.push_back(o);
    }
    p.th.push_back(ops);
  }
  return p;
}

/*----------------------------------------------------------------------------------------------
 * ghost state (monitors)
 *--------------------------------------------------------------------------------------------*/
struct Phase {
  int8_t lock;
  int8_t thread;
  Mode mode;
  int8_t bit;       // happens-before event bit
  bool active;
  bool conv;        // part of a conversion chain
  uint32_t arrival; // MCS arrival stamp (0 = not a queue request)
};

struct Pending {  // a lock request that has announced itself but has not returned yet (MCS FIFO)
  bool active = false;
  int8_t lock = 0;
  Mode mode = M_S;
  uint32_t arrival = 0;  // 0: not yet arrived
};

struct Snap {  // ghost state at the last atomic step of a thread on a lock word
  bool valid = false;
  int8_t lock = -1;
  uint32_t ghost = 0;
  bool xreg = false;
  uint32_t commits = 0;
  int nactive = 0;
  long pay = 0;
  uint64_t word_before = 0;
};

struct ThreadModel {
  // slots: kind 0:S 1:SIX 2:X 3:Comp ; index
  int8_t own[4][kSlots];   // phase index owned by the slot, -1 none
  int8_t engaged[4][kSlots];
  int pc = 0;
  int phases = 0;
  long last_read = -1;
  long ro_a = -1, ro_b = -1;
  uint32_t opt_ver = 0;
  int8_t opt_lock = -1;
  uint32_t opt_commits = 0;
  long opt_pay = 0;
  uint32_t comp_commits[kSlots] = {0, 0};
  long comp_pay[kSlots] = {0, 0};
  int wcount = 0;
  // release / conversion in flight
  int8_t pend_end = -1;       // phase to end at the next effective write
  int8_t pend_down = -1;      // X phase being downgraded: at next effective write becomes SIX
  uint32_t pend_newver = 0;   // version to be published when pend_end/pend_down fires (Opt)
  bool pend_setsver = false;
  Pending req;
  Snap snap;
  uint32_t xacq_ver[kSlots] = {0, 0};  // ghost version at X grant begin, per X slot
  uint32_t xnew_ver[kSlots] = {0, 0};  // version that slot will publish
  char results[160] = {0};             // outcome string (values read, try results)
  bool started = false;                // executed its first operation
  int upgrading = -1;                  // SIX phase being converted by an UpgradeToX call in progress
  int down_result = -1;
};

template <class T, int N>
struct FixedVec {  // no heap: harness bookkeeping must not disturb the deterministic arena
  T v[N];
  int n = 0;
  void
  push_back(const T &x)
  {
    if (n >= N) vs::ViolateFatal("INTERNAL", "FIXEDVEC", "bookkeeping overflow");
    v[n++] = x;
  }
  T &operator[](size_t i) { return v[i]; }
  [[nodiscard]] size_t size() const { return static_cast<size_t>(n); }
  T *begin() { return v; }
  T *end() { return v + n; }
};

struct Ghost {
  FixedVec<Phase, 96> phases;
  uint32_t ghost_ver[kLocks] = {0, 0};
  uint32_t commits[kLocks] = {0, 0};
  uint32_t arrivals = 0;
  ThreadModel tm[kMaxT + 1];
  size_t max_live_nodes = 0;
} *GH;

struct World {
  Lock locks[kLocks];
  long pa[kLocks];
  long pb[kLocks];
} *W;

Program PROG;
int NT = 0;            // program threads
bool g_galg = false;       // guard-algebra BFS: thread 0 publishes a canonical key of its final state
uint64_t g_galg_key = 0;
bool g_epilogue = true;
const void *g_tls_node[kMaxT + 1];  // MCS: per-thread cached node pointer (published at points)

// Layout of the lock word. The defaults are the documented layout (design_doc/lock.md and the property anchors):
// X bit 63, SIX bit 62, shared counter bits 0-61 (pessimistic) / 32-61 (optimistic), version bits 0-31, free = 0.
// Before any exploration the harness *calibrates* the layout on a private lock object through the public API
// (Calibrate() below); a consistent different layout is adopted, so that a refactoring that moves internal bits,
// pads the object or adds another atomic member does not make the word-based invariants raise false alarms. An
// inconsistent calibration (a defect, not a layout) keeps the documented layout.
struct Layout {
  int32_t mode = 0;       // 0 documented (calibration confirmed or not possible), 1 learnt (differs from the documentation)
  int32_t fixed_off = 0;  // 1: word offset known from calibration; accesses to other atomics inside a lock object are not word accesses
  uint64_t word_off = 0;
  uint64_t free_word = 0;
  uint64_t x = 1ULL << 63U, six = 1ULL << 62U;
#if LK == 1
  uint64_t s_unit = 1ULL << 32U, s_mask = ((1ULL << 30U) - 1ULL) << 32U;
  uint64_t ver_mask = 0xffffffffULL;
  uint32_t ver_shift = 0;
#else
  uint64_t s_unit = 1ULL, s_mask = (1ULL << 62U) - 1ULL;
  uint64_t ver_mask = 0;
  uint32_t ver_shift = 0;
#endif
  char note[224] = "documented layout (calibration not run)";
} LAY;

// offset of the 64-bit lock word inside a lock object: 0 in the pinned source; fixed by the calibration, else learnt
// from the first atomic access to a lock object
size_t g_word_off = 0;
inline uint64_t
Word(int l)
{
  return *reinterpret_cast<volatile uint64_t *>(reinterpret_cast<char *>(&W->locks[l]) + g_word_off);
}
inline const void *
WordAddr(int l)
{
  return static_cast<const void *>(reinterpret_cast<const char *>(&W->locks[l]) + g_word_off);
}
int
LockOfAddr(const void *a)
{
  for (int l = 0; l < kLocks; ++l) {
    const auto *lo = reinterpret_cast<const char *>(&W->locks[l]);
    const auto *p = static_cast<const char *>(a);
    if (p >= lo && p + sizeof(uint64_t) <= lo + sizeof(Lock)) {
      if (LAY.fixed_off != 0) return static_cast<size_t>(p - lo) == g_word_off ? l : -1;
      g_word_off = static_cast<size_t>(p - lo);
      return l;
    }
  }
  return -1;
}

void
AddResult(ThreadModel &tm, const char *f, ...)
{
  size_t n = strlen(tm.results);
  if (n + 24 >= sizeof tm.results) return;
  va_list ap;
  va_start(ap, f);
  vsnprintf(tm.results + n, sizeof tm.results - n, f, ap);
  va_end(ap);
}

std::string
Fmt(const char *f, ...)
{
  char buf[512];
  va_list ap;
  va_start(ap, f);
  vsnprintf(buf, sizeof buf, f, ap);
  va_end(ap);
  return buf;
}

int
ActiveCount(int l)
{
  int n = 0;
  for (auto &p : GH->phases)
    if (p.active && p.lock == l) ++n;
  return n;
}
bool
XRegistered(int l)
{
  for (auto &p : GH->phases)
    if (p.active && p.lock == l && p.mode == M_X) return true;
  return false;
}



#if LK != 2
// the documented word layout: X bit 63, SIX bit 62, shared counter above the version (optimistic: bits 32-61,
// pessimistic: bits 0-61). Every *registered* grant has certainly been acquired and not yet released, so it must be
// visible in the word: a write that makes a registered grant vanish has released more than its own grant (or
// corrupted the word), and a call that returns an owning guard whose grant the word does not show has not acquired it.
void
CheckGrantsVisible(int l, int tid, bool comp, const char *what, bool at_begin)
{
  const uint64_t w = Word(l);
  uint64_t ns = 0;
  bool six = false, x = false;
  bool six_or_x = false;  // a SIX grant that is being upgraded right now may already show as X
  for (size_t i = 0; i < GH->phases.size(); ++i) {
    auto &p = GH->phases[i];
    if (!p.active || p.lock != l) continue;
    if (p.mode == M_S) ++ns;
    if (p.mode == M_SIX) {
      if (GH->tm[p.thread].upgrading == static_cast<int>(i)) {
        six_or_x = true;
      } else {
        six = true;
      }
    }
    if (p.mode == M_X) x = true;
  }
  const uint64_t cnt = (w & LAY.s_mask) / LAY.s_unit;
  const bool wx = (w & LAY.x) != 0, wsix = (w & LAY.six) != 0;
  if (cnt < ns || (six && !wsix) || (x && !wx) || (six_or_x && !wsix && !wx)) {
    if (at_begin) {
      vs::Violate(comp ? "C01,C07,C13" : "C01,C07", "GRANT-NOT-IN-WORD",
                  Fmt("T%d's %s returned an owning guard, but lock %d's word 0x%" PRIx64 " does not show the %" PRIu64 " S%s%s grant(s) now registered", tid,
                      what, l, w, ns, six ? " + SIX" : "", x ? " + X" : ""));
    } else {
      vs::Violate(comp ? "C01,C07,C13" : "C01,C07", "GRANT-VANISHED",
                  Fmt("a write by T%d (%s) left lock %d with word 0x%" PRIx64 " although %" PRIu64 " S%s%s grant(s) of other guards are still held", tid,
                      what, l, w, ns, six ? " + SIX" : "", x ? " + X" : ""));
    }
  }
}
#endif

// begin a grant phase: matrix check (C01/C10), happens-before check (C08), FIFO (C11)
int
BeginPhase(int tid, int l, Mode m, bool conv, const char *how)
{
  auto &tm = GH->tm[tid];
  const uint64_t K = vs::HbKnown(tid);
  for (size_t i = 0; i < GH->phases.size(); ++i) {
    auto &p = GH->phases[i];
    if (p.lock != l || p.thread == tid) continue;
    if (p.active && Conflict(p.mode, m)) {
      const bool c10 = conv || p.conv;
      // two conflicting grants that overlap are not ordered by happens-before either (C08: one of the two critical
      // sections has to be entirely before the other)
      std::string props = c10 ? "C01,C10,C08" : "C01,C08";
      vs::Violate(props.c_str(), Fmt("CONFLICT:%s-vs-%s", kModeName[m], kModeName[p.mode]),
                  Fmt("T%d obtained %s on lock %d via %s while T%d holds %s", tid, kModeName[m], l, how,
                      p.thread, kModeName[p.mode]));
    }
    if (!p.active && Conflict(p.mode, m) && !((K >> p.bit) & 1ULL)) {
      vs::Violate("C08", Fmt("NO-HB:%s-then-%s:%s", kModeName[p.mode], kModeName[m], how),
                  Fmt("T%d's %s grant on lock %d (via %s) is not ordered by happens-before after the "
                      "end of T%d's earlier %s grant (declared memory orders give no synchronises-with chain)",
                      tid, kModeName[m], l, how, p.thread, kModeName[p.mode]));
    }
  }
#if LK == 2
  // C11: no conflicting request that arrived earlier may still be waiting
  if (tm.req.active && tm.req.arrival != 0) {
    for (int u = 0; u < NT; ++u) {
      if (u == tid) continue;
      auto &r = GH->tm[u].req;
      if (r.active && r.lock == l && r.arrival != 0 && r.arrival < tm.req.arrival && Conflict(r.mode, m)) {
        vs::Violate("C11", Fmt("OVERTAKE:%s-before-%s", kModeName[m], kModeName[r.mode]),
                    Fmt("T%d's %s request (arrival #%u) on lock %d was granted while T%d's conflicting %s "
                        "request (arrival #%u) is still waiting",
                        tid, kModeName[m], tm.req.arrival, l, u, kModeName[r.mode], r.arrival));
      }
    }
  }
#endif
  if (tm.phases >= 16) vs::ViolateFatal("INTERNAL", "PHASES", "too many phases in one thread");
  if (tid < NT) {
    for (auto &o : PROG.th[tid]) conv |= (o.mn == "UP" || o.mn == "DN");
  }
  Phase ph{static_cast<int8_t>(l), static_cast<int8_t>(tid), m, static_cast<int8_t>(tid * 16 + tm.phases),
           true, conv, tm.req.active ? tm.req.arrival : 0};
  ++tm.phases;
  GH->phases.push_back(ph);
  tm.req.active = false;
#if LK != 2
  CheckGrantsVisible(l, tid, strstr(how, "PrepareRead") != nullptr || strstr(how, "Composite") != nullptr, how, true);
#endif
  return static_cast<int>(GH->phases.size()) - 1;
}

void
EndPhaseNow(int tid, int ph)
{
  auto &p = GH->phases[ph];
  p.active = false;
#if LK == 1
  if (p.mode == M_X) {
    auto &tm = GH->tm[tid];
    GH->ghost_ver[p.lock] = tm.pend_newver;
    ++GH->commits[p.lock];
    // C09: nobody else can hold anything while X is held, so the step that ends the exclusive grant
    // must leave the version alone in the word (documented layout: bits 32-63 are lock-mode state)
    const uint64_t w = Word(p.lock);
    if ((w & ~LAY.ver_mask) != (LAY.free_word & ~LAY.ver_mask)) {
      vs::Violate("C09,C07", "MODE-BITS-DISTURBED",
                  Fmt("T%d ended an exclusive grant on lock %d and left the word 0x%" PRIx64 ": the published version disturbed the lock-mode bits", tid, p.lock, w));
    }
  }
#else
  (void)tid;
#endif
}

/*----------------------------------------------------------------------------------------------
 * post-operation hook: grant ends, arrivals, ghost-version invariant, node-cache discipline
 *--------------------------------------------------------------------------------------------*/
void
OnPost(int tid, const vs::Op &op, uint64_t observed, uint64_t written, bool wrote)
{
  if (tid > kMaxT) return;
  auto &tm = GH->tm[tid];
  const bool eff = wrote && written != observed;
  const int l = (op.kind <= vs::K_CAS) ? LockOfAddr(op.addr) : -1;
#if LK == 2
  // C12(b): no access to a node sitting in a thread's spare-node cache
  if (op.kind <= vs::K_CAS && op.addr != nullptr && l < 0) {
    for (int u = 0; u <= NT; ++u) {
      if (g_tls_node[u] != nullptr && g_tls_node[u] == op.addr) {
        vs::Violate("C12", Fmt("CACHED-NODE-ACCESS:%s", u == tid ? "own" : "other"),
                    Fmt("T%d performs %s on a queue node that currently sits in T%d's spare-node cache (%s)",
                        tid, op.kind == vs::K_LOAD ? "a load" : "a write/RMW", u, GH->tm[tid].pc >= 0 ? "in call" : ""));
      }
    }
  }
  // C11: arrival = first effective write to the lock object's word by a pending request
  if (eff && l >= 0 && tm.req.active && tm.req.arrival == 0 && tm.req.lock == l) {
    tm.req.arrival = ++GH->arrivals;
  }
#endif
#if LK == 2
  const bool on_release_target = true;  // MCS releases act on the lock word or on a queue node
#else
  // single-word locks: a grant ends only by a write to the word of *its* lock
  const bool on_release_target = l >= 0 && ((tm.pend_end >= 0 && GH->phases[tm.pend_end].lock == l) || (tm.pend_down >= 0 && GH->phases[tm.pend_down].lock == l));
#endif
  if (eff && on_release_target) {
    if (tm.pend_end >= 0) {
      EndPhaseNow(tid, tm.pend_end);
      tm.pend_end = -1;
    } else if (tm.pend_down >= 0) {
      auto &p = GH->phases[tm.pend_down];
      // X phase ends, SIX phase begins at the same step
      p.active = false;
#if LK == 1
      GH->ghost_ver[p.lock] = tm.pend_newver;
      ++GH->commits[p.lock];
      {
        const uint64_t w = Word(p.lock);
        if ((w & ~LAY.ver_mask) != ((LAY.free_word & ~LAY.ver_mask) | LAY.six)) {  // only the SIX flag may be set after a downgrade
          vs::Violate("C09,C07", "MODE-BITS-DISTURBED",
                      Fmt("T%d downgraded an exclusive grant on lock %d and left the word 0x%" PRIx64 ": the published version disturbed the lock-mode bits", tid, p.lock, w));
        }
      }
#endif
      Phase six{p.lock, p.thread, M_SIX, static_cast<int8_t>(tid * 16 + tm.phases), true, true, 0};
      ++tm.phases;
      GH->phases.push_back(six);
      tm.down_result = static_cast<int>(GH->phases.size()) - 1;
      tm.pend_down = -1;
    }
  }
#if LK == 1
  if (l >= 0) {
    // C09: the version field always equals the ghost version
    const uint64_t w = Word(l);
    if (eff && static_cast<uint32_t>((w & LAY.ver_mask) >> LAY.ver_shift) != GH->ghost_ver[l]) {
      vs::Violate("C09", "VERSION-FIELD",
                  Fmt("after a write by T%d the version field of lock %d is 0x%x but the specification "
                      "prescribes 0x%x (word 0x%" PRIx64 ")",
                      tid, l, static_cast<uint32_t>((w & LAY.ver_mask) >> LAY.ver_shift), GH->ghost_ver[l], w));
    }
  }
#endif
#if LK != 2
  if (l >= 0 && eff) {
    const std::string &mn = (tid < NT && tm.pc >= 0 && tm.pc < static_cast<int>(PROG.th[tid].size())) ? PROG.th[tid][tm.pc].mn : std::string("epilogue");
    const bool comp = mn == "PR" || mn == "DC" || mn == "MC" || mn == "CC" || mn == "CV";
    CheckGrantsVisible(l, tid, comp, mn.c_str(), false);
  }
#endif
  if (l >= 0) {
    auto &s = tm.snap;
    s.valid = true;
    s.lock = static_cast<int8_t>(l);
    s.ghost = GH->ghost_ver[l];
    s.xreg = XRegistered(l);
    s.commits = GH->commits[l];
    // active phases of *other* threads and of this thread before this step's own registration
    s.nactive = ActiveCount(l);
    s.pay = W->pa[l];
    s.word_before = observed;
  }
}

// the calling thread's spare queue node, if the lock class keeps one in `tls_node_` (a refactored cache
// of another shape is simply not tracked: check (b) of C12 is skipped, the others still apply)
template <class L>
const void *
CachedNodeOf()
{
  if constexpr (requires { L::tls_node_.get(); }) {
    return static_cast<const void *>(L::tls_node_.get());
  } else {
    return nullptr;
  }
}

void
OnPoint(int tid)
{
#if LK == 2
  if (tid <= kMaxT) g_tls_node[tid] = CachedNodeOf<Lock>();
#else
  (void)tid;
#endif
}

/*----------------------------------------------------------------------------------------------
 * interpreter
 *--------------------------------------------------------------------------------------------*/
template <class G>
struct Slot {
  alignas(G) unsigned char buf[sizeof(G)];
  bool engaged = false;
  Slot() { memset(buf, 0, sizeof buf); }
  G &operator*() { return *std::launder(reinterpret_cast<G *>(buf)); }
  template <class... A>
  void
  emplace(A &&...a)
  {
    reset();
    memset(buf, 0, sizeof buf);
    ::new (static_cast<void *>(buf)) G(std::forward<A>(a)...);
    engaged = true;
  }
  void
  reset()
  {
    if (engaged) {
      (**this).~G();
      engaged = false;
      memset(buf, 0, sizeof buf);
    }
  }
  uint64_t
  Hash() const
  {
    uint64_t h = engaged ? 1 : 2;
    if (engaged)
      for (size_t i = 0; i < sizeof buf; i += 8) {
        uint64_t v = 0;
        memcpy(&v, buf + i, std::min<size_t>(8, sizeof buf - i));
        h = vs::Mix(h, v);
      }
    return h;
  }
  ~Slot() { reset(); }
};

struct Interp {
  int tid;
  ThreadModel &tm;
  Slot<SG> S[kSlots];
  Slot<SIXG> X6[kSlots];
  Slot<XG> X[kSlots];
#if LK == 1
  Slot<Lock::CompositeGuard> C[kSlots];
  Lock::OptGuard opt{};
  bool opt_valid = false;
#endif
  char label[64];

  explicit Interp(int t) : tid{t}, tm{GH->tm[t]} {}

  static int Sl(char c) { return c == 'b' ? 1 : 0; }
  static int Lk(char c) { return c == '1' ? 1 : 0; }

  bool
  Holds(int l, int minmode_mask)
  {
    for (int k = 0; k < 4; ++k)
      for (int s = 0; s < kSlots; ++s) {
        if (!tm.engaged[k][s]) continue;
        bool b = false;
        Mode m = M_S;
        switch (k) {
          case 0:
            b = static_cast<bool>(*S[s]);
            m = M_S;
            break;
          case 1:
            b = static_cast<bool>(*X6[s]);
            m = M_SIX;
            break;
          case 2:
            b = static_cast<bool>(*X[s]);
            m = M_X;
            break;
          default:
#if LK == 1
            b = static_cast<bool>(*C[s]);
            m = M_S;
#endif
            break;
        }
        if (!b) continue;
        int ph = tm.own[k][s];
        if (ph < 0) continue;
        if (GH->phases[ph].lock != l) continue;
        if ((minmode_mask >> m) & 1) return true;
      }
    return false;
  }

  uint64_t
  Digest()
  {
    uint64_t h = vs::Mix(static_cast<uint64_t>(tm.pc), static_cast<uint64_t>(tm.phases));
    for (int s = 0; s < kSlots; ++s) {
      h = vs::Mix(h, S[s].Hash());
      h = vs::Mix(h, X6[s].Hash());
      h = vs::Mix(h, X[s].Hash());
#if LK == 1
      h = vs::Mix(h, C[s].Hash());
#endif
      for (int k = 0; k < 4; ++k) h = vs::Mix(h, static_cast<uint64_t>(tm.own[k][s] + 2) * 5 + tm.engaged[k][s]);
      h = vs::Mix(h, tm.xacq_ver[s]);
      h = vs::Mix(h, tm.xnew_ver[s]);
      h = vs::Mix(h, tm.comp_commits[s]);
      h = vs::Mix(h, static_cast<uint64_t>(tm.comp_pay[s]));
    }
#if LK == 1
    h = vs::Mix(h, opt_valid ? (static_cast<uint64_t>(opt.GetVersion()) << 1) | 1U : 0);
#endif
#if LK == 2
    h = vs::Mix(h, reinterpret_cast<uint64_t>(CachedNodeOf<Lock>()));
#endif
    h = vs::Mix(h, static_cast<uint64_t>(tm.last_read));
    h = vs::Mix(h, static_cast<uint64_t>(tm.ro_a) * 31 + static_cast<uint64_t>(tm.ro_b));
    h = vs::Mix(h, tm.opt_ver | (static_cast<uint64_t>(tm.opt_commits) << 32));
    h = vs::Mix(h, static_cast<uint64_t>(tm.opt_pay));
    h = vs::Mix(h, static_cast<uint64_t>(tm.wcount));
    h = vs::Mix(h, std::hash<std::string_view>{}(std::string_view(tm.results)));
    return h;
  }

  // Canonical key of everything the future of this thread can depend on, for the breadth-first search over
  // single-thread operation histories (--galg): the ownership model per guard slot, the *object representation* of
  // every guard (hidden state such as cached versions or stale pointers makes histories distinct that the
  // ownership model would merge), both lock words and ghost versions. Pointers into the lock array or into arena
  // blocks (MCS queue nodes) are replaced by position-independent tags so that allocation order does not matter.
  struct Canon {
    const void *seen[16];
    int n = 0;
    uint64_t
    Ptr(uint64_t v, int depth)
    {
      const auto *p = reinterpret_cast<const char *>(v);
      const auto *lo = reinterpret_cast<const char *>(&W->locks[0]);
      if (p >= lo && p < lo + sizeof(W->locks)) return 0xA000000000000000ULL | static_cast<uint64_t>(p - lo);
      if (v < 4096 || (v >> 47U) != 0) return v;
      auto bi = vs::BlockOf(p);
      if (bi.st == vs::B_NONE) return v;
      int idx = -1;
      for (int i = 0; i < n; ++i)
        if (seen[i] == bi.base) idx = i;
      const bool fresh = idx < 0;
      if (fresh && n < 16) {
        idx = n;
        seen[n++] = bi.base;
      }
      uint64_t h = vs::Mix(0xB10C, (static_cast<uint64_t>(idx + 1) << 8) | static_cast<uint64_t>(bi.st));
      h = vs::Mix(h, static_cast<uint64_t>(p - static_cast<const char *>(bi.base)));
      if (fresh && bi.st == vs::B_LIVE && depth < 3 && bi.size >= 8 && bi.size <= 64) {
        for (size_t i = 0; i + 8 <= bi.size; i += 8) {
          uint64_t w = 0;
          memcpy(&w, static_cast<const char *>(bi.base) + i, 8);
          h = vs::Mix(h, Word64(w, depth + 1));
        }
      }
      return h;
    }
    uint64_t
    Word64(uint64_t w, int depth)
    {
#if LK == 2
      // MCS words: flags and counter above bit 47, a node pointer below
      return vs::Mix(w >> 47U, Ptr(w & ((1ULL << 47U) - 1ULL), depth));
#else
      return Ptr(w, depth);
#endif
    }
  };

  template <class SlotT>
  uint64_t
  CanonSlot(Canon &c, SlotT &sl)
  {
    uint64_t h = sl.engaged ? 1 : 2;
    if (sl.engaged)
      for (size_t i = 0; i < sizeof sl.buf; i += 8) {
        uint64_t v = 0;
        memcpy(&v, sl.buf + i, std::min<size_t>(8, sizeof sl.buf - i));
        h = vs::Mix(h, c.Ptr(v, 0));
      }
    return h;
  }

  uint64_t
  CanonKey()
  {
    Canon c;
    uint64_t h = 0x6A16;
    for (int l = 0; l < kLocks; ++l) {
      h = vs::Mix(h, c.Word64(Word(l), 0));
      h = vs::Mix(h, GH->ghost_ver[l]);
    }
    for (int s = 0; s < kSlots; ++s) {
      h = vs::Mix(h, CanonSlot(c, S[s]));
      h = vs::Mix(h, CanonSlot(c, X6[s]));
      h = vs::Mix(h, CanonSlot(c, X[s]));
#if LK == 1
      h = vs::Mix(h, CanonSlot(c, C[s]));
#endif
      for (int k = 0; k < 4; ++k) {
        const int ph = tm.own[k][s];
        const uint64_t own = ph < 0 ? 0 : 1 + static_cast<uint64_t>(GH->phases[ph].lock) * 4 + GH->phases[ph].mode;
        h = vs::Mix(h, own * 2 + tm.engaged[k][s]);
      }
      h = vs::Mix(h, tm.own[2][s] >= 0 ? (static_cast<uint64_t>(tm.xacq_ver[s]) << 32) | tm.xnew_ver[s] : 0);
    }
#if LK == 1
    h = vs::Mix(h, opt_valid ? (static_cast<uint64_t>(opt.GetVersion()) << 2) | static_cast<uint64_t>(tm.opt_lock) << 1 | 1U : 0);
#endif
#if LK == 2
    h = vs::Mix(h, c.Ptr(reinterpret_cast<uint64_t>(CachedNodeOf<Lock>()), 0));
    h = vs::Mix(h, vs::LiveBlocksOfSize(sizeof(Lock)));
#endif
    return h;
  }

  void
  ExpectBool(const char *what, bool actual, bool expected)
  {
    if (actual != expected) {
      vs::Violate("C07", Fmt("GUARD-BOOL:%s:%d", what, static_cast<int>(expected)),
                  Fmt("T%d: after %s the guard converts to %s but it %s a grant", tid, what,
                      actual ? "true" : "false", expected ? "owns" : "does not own"));
    }
  }

  // common epilogue of an acquiring call
  void
  Acquired(int kind, int s, int l, Mode m, bool owning, bool conv, const char *how, uint32_t w0)
  {
    tm.engaged[kind][s] = 1;
    if (owning) {
      if (vs::Stat(tid).eff_writes == w0 && !conv) {
        vs::Violate(kind == 3 ? "C07,C13" : "C07", Fmt("OWNING-WITHOUT-WRITE:%s", how),
                    Fmt("T%d: %s returned an owning guard without modifying the lock", tid, how));
      }
      tm.own[kind][s] = static_cast<int8_t>(BeginPhase(tid, l, m, conv, how));
    } else {
      tm.own[kind][s] = -1;
      tm.req.active = false;
    }
  }

  // a call that must release exactly the grant `ph` (or nothing when ph < 0)
  template <class F>
  void
  Releasing(const char *what, int ph, uint32_t newver, F f, const char *props = "C07")
  {
    const uint32_t w0 = vs::Stat(tid).eff_writes;
    if (ph >= 0) {
      vs::HbMark(tid, GH->phases[ph].bit);
      tm.pend_end = static_cast<int8_t>(ph);
      tm.pend_newver = newver;
    }
    f();
    if (ph >= 0) {
      if (tm.pend_end >= 0) {
        tm.pend_end = -1;
        vs::Violate(props, Fmt("NO-RELEASE:%s", what),
                    Fmt("T%d: %s of an owning guard did not release its grant (no write to the lock)", tid, what));
      }
    } else if (vs::Stat(tid).eff_writes != w0) {
      vs::Violate(props, Fmt("SPURIOUS-RELEASE:%s", what),
                  Fmt("T%d: %s of a non-owning guard modified shared state", tid, what));
    }
  }

  void
  StartRequest(int l, Mode m)
  {
    tm.req.active = true;
    tm.req.lock = static_cast<int8_t>(l);
    tm.req.mode = m;
    tm.req.arrival = 0;
  }

  uint32_t
  NewVerOfX(int s)
  {
    return tm.xnew_ver[s];
  }

  void
  PayloadWrite(int l)
  {
    const long v = (tid + 1) * 1000 + (++tm.wcount);
    vs::PlainPoint(&W->pa[l], true);
    W->pa[l] = v;
    vs::PlainPoint(&W->pb[l], true);
    W->pb[l] = v;
  }

  void
  PayloadRead(int l, bool locked)
  {
    vs::PlainPoint(&W->pa[l], false);
    const long x = W->pa[l];
    vs::PlainPoint(&W->pb[l], false);
    const long y = W->pb[l];
    if (locked) {
      if (x != y) {
        vs::Violate("C01", "TORN-READ",
                    Fmt("T%d read a half-updated payload (%ld/%ld) of lock %d inside a critical section", tid, x, y, l));
      }
      tm.last_read = x;
      AddResult(tm, "r%ld ", x);
    } else {
      tm.ro_a = x;
      tm.ro_b = y;
    }
  }

  void Exec(const OpCode &o);

  void
  Run()
  {
    const auto &ops = PROG.th[tid];
    tm.started = true;
    for (tm.pc = 0; tm.pc < static_cast<int>(ops.size()); ++tm.pc) {
      snprintf(label, sizeof label, "%s@%d", ops[tm.pc].text.c_str(), tm.pc);
      vs::SetCall(label);
      vs::Boundary(Digest());
      if (vs::Replaying()) vs::Note(label);
      Exec(ops[tm.pc]);
#if LK == 2
      GH->max_live_nodes = std::max(GH->max_live_nodes, vs::LiveBlocksOfSize(sizeof(Lock)));
      {
        // C12(c): live nodes <= threads + outstanding requests (granted or waiting)
        size_t outstanding = 0;
        for (auto &p : GH->phases) outstanding += p.active ? 1 : 0;
        size_t alive = 0;
        for (int u = 0; u < NT; ++u) {
          outstanding += GH->tm[u].req.active ? 1 : 0;
          // a thread can keep one spare node from its first lock operation until it exits
          alive += (GH->tm[u].started && !vs::HasFinished(u)) ? 1 : 0;
        }
        const size_t live = vs::LiveBlocksOfSize(sizeof(Lock));
        if (live > alive + outstanding) {
          vs::Violate("C12", "NODE-BOUND",
                      Fmt("%zu queue nodes are live with %zu running thread(s) and %zu outstanding request(s)", live, alive, outstanding));
        }
      }
#endif
    }
    tm.pc = static_cast<int>(ops.size());
    vs::SetCall("script-end");
    vs::Boundary(Digest());
    if (g_galg && tid == 0) g_galg_key = CanonKey();
    // leftover guards are destroyed by ~Slot (scripts are expected to release explicitly)
    // shared grants first: on an MCSLock the release of a SIX grant waits for the shared grants that preceded it
    for (int kind : {0, 3, 1, 2})
      for (int s = 0; s < kSlots; ++s) DestroySlot(kind, s, "end");
  }

  void
  DestroySlot(int kind, int s, const char *what)
  {
    if (!tm.engaged[kind][s]) return;
    const int ph = tm.own[kind][s];
    const uint32_t nv = kind == 2 ? NewVerOfX(s) : 0;
    Releasing(what, ph, nv, [&] {
      switch (kind) {
        case 0:
          S[s].reset();
          break;
        case 1:
          X6[s].reset();
          break;
        case 2:
          X[s].reset();
          break;
        default:
#if LK == 1
          C[s].reset();
#endif
          break;
      }
    }, kind == 3 ? "C07,C13" : "C07");
    tm.engaged[kind][s] = 0;
    tm.own[kind][s] = -1;
  }

  void
  CheckAllBools(const char *after)
  {
    (void)after;
    for (int s = 0; s < kSlots; ++s) {
      if (tm.engaged[0][s]) ExpectBool("a later operation (SGuard)", static_cast<bool>(*S[s]), tm.own[0][s] >= 0);
      if (tm.engaged[1][s]) ExpectBool("a later operation (SIXGuard)", static_cast<bool>(*X6[s]), tm.own[1][s] >= 0);
      if (tm.engaged[2][s]) ExpectBool("a later operation (XGuard)", static_cast<bool>(*X[s]), tm.own[2][s] >= 0);
#if LK == 1
      if (tm.engaged[3][s]) ExpectBool("a later operation (CompositeGuard)", static_cast<bool>(*C[s]), tm.own[3][s] >= 0);
#endif
    }
  }
};

void
Interp::Exec(const OpCode &o)
{
  const std::string &mn = o.mn;
  uint32_t w0 = vs::Stat(tid).eff_writes;  // re-sampled after the release of a guard that the operation overwrites
  if (mn == "LS" || mn == "L6" || mn == "LX") {
    const int l = Lk(o.a), s = Sl(o.b);
    const Mode m = mn == "LS" ? M_S : (mn == "L6" ? M_SIX : M_X);
    const int kind = static_cast<int>(m);
    DestroySlot(kind, s, "overwrite");
    w0 = vs::Stat(tid).eff_writes;
    StartRequest(l, m);
    if (m == M_S) {
      S[s].emplace(W->locks[l].LockS());
      Acquired(0, s, l, m, true, false, "LockS", w0);
      ExpectBool("LockS", static_cast<bool>(*S[s]), true);
    } else if (m == M_SIX) {
      X6[s].emplace(W->locks[l].LockSIX());
      Acquired(1, s, l, m, true, false, "LockSIX", w0);
      ExpectBool("LockSIX", static_cast<bool>(*X6[s]), true);
    } else {
      X[s].emplace(W->locks[l].LockX());
      Acquired(2, s, l, m, true, false, "LockX", w0);
      ExpectBool("LockX", static_cast<bool>(*X[s]), true);
#if LK == 1
      tm.xacq_ver[s] = GH->ghost_ver[l];
      tm.xnew_ver[s] = GH->ghost_ver[l] + 1U;
#endif
    }
  } else if (mn == "DS" || mn == "D6" || mn == "DX") {
    const int kind = mn == "DS" ? 0 : (mn == "D6" ? 1 : 2);
    DestroySlot(kind, Sl(o.a), mn == "DS" ? "~SGuard" : (mn == "D6" ? "~SIXGuard" : "~XGuard"));
  } else if (mn == "ES" || mn == "E6" || mn == "EX") {
    const int kind = mn == "ES" ? 0 : (mn == "E6" ? 1 : 2);
    const int s = Sl(o.a);
    DestroySlot(kind, s, "overwrite");
    w0 = vs::Stat(tid).eff_writes;
    if (kind == 0) S[s].emplace();
    if (kind == 1) X6[s].emplace();
    if (kind == 2) X[s].emplace();
    tm.engaged[kind][s] = 1;
    tm.own[kind][s] = -1;
    if (vs::Stat(tid).eff_writes != w0) vs::Violate("C07", "DEFAULT-CTOR-WRITES", "default construction modified shared state");
  } else if (mn == "MS" || mn == "M6" || mn == "MX") {
    // move assignment dst = std::move(src); both engaged
    const int kind = mn == "MS" ? 0 : (mn == "M6" ? 1 : 2);
    const int s = Sl(o.a), d = Sl(o.b);
    if (!tm.engaged[kind][s] || s == d) return;
    if (!tm.engaged[kind][d]) {
      if (kind == 0) S[d].emplace();
      if (kind == 1) X6[d].emplace();
      if (kind == 2) X[d].emplace();
      tm.engaged[kind][d] = 1;
      tm.own[kind][d] = -1;
    }
    const int ph = tm.own[kind][d];
    Releasing("move-assignment", ph, kind == 2 ? NewVerOfX(d) : 0, [&] {
      if (kind == 0) *S[d] = std::move(*S[s]);
      if (kind == 1) *X6[d] = std::move(*X6[s]);
      if (kind == 2) *X[d] = std::move(*X[s]);
    });
    tm.own[kind][d] = tm.own[kind][s];
    tm.own[kind][s] = -1;
    if (kind == 2) {
      tm.xacq_ver[d] = tm.xacq_ver[s];
      tm.xnew_ver[d] = tm.xnew_ver[s];
    }
  } else if (mn == "CS" || mn == "C6" || mn == "CX") {
    const int kind = mn == "CS" ? 0 : (mn == "C6" ? 1 : 2);
    const int s = Sl(o.a), d = Sl(o.b);
    if (!tm.engaged[kind][s] || s == d) return;
    DestroySlot(kind, d, "overwrite");
    w0 = vs::Stat(tid).eff_writes;
    if (kind == 0) S[d].emplace(std::move(*S[s]));
    if (kind == 1) X6[d].emplace(std::move(*X6[s]));
    if (kind == 2) X[d].emplace(std::move(*X[s]));
    tm.engaged[kind][d] = 1;
    tm.own[kind][d] = tm.own[kind][s];
    tm.own[kind][s] = -1;
    if (kind == 2) {
      tm.xacq_ver[d] = tm.xacq_ver[s];
      tm.xnew_ver[d] = tm.xnew_ver[s];
    }
    if (vs::Stat(tid).eff_writes != w0) vs::Violate("C07", "MOVE-CTOR-WRITES", "move construction modified shared state");
  } else if (mn == "UP") {
    const int s = Sl(o.a), d = Sl(o.b);
    if (!tm.engaged[1][s]) return;
    const int ph = tm.own[1][s];
    DestroySlot(2, d, "overwrite");
    w0 = vs::Stat(tid).eff_writes;
    long before = tm.last_read;
    (void)before;
    if (ph >= 0) vs::HbMark(tid, GH->phases[ph].bit);  // the SIX phase ends (program order) here
    tm.upgrading = ph;
    X[d].emplace((*X6[s]).UpgradeToX());
    tm.upgrading = -1;
    tm.engaged[2][d] = 1;
    if (ph >= 0) {
      const int l = GH->phases[ph].lock;
      // SIX phase is replaced by an X phase at return: nobody else may hold anything now
      GH->phases[ph].active = false;
      GH->phases[ph].conv = true;
      // C10: every shared holder has left
      for (auto &p : GH->phases) {
        if (p.active && p.lock == l && p.thread != tid && p.mode == M_S) {
          vs::Violate("C10,C01", "UPGRADE-WITH-READERS",
                      Fmt("T%d's UpgradeToX on lock %d returned while T%d still holds S", tid, l, p.thread));
        }
      }
      tm.own[2][d] = static_cast<int8_t>(BeginPhase(tid, l, M_X, true, "UpgradeToX"));
      tm.own[1][s] = -1;
#if LK == 1
      tm.xacq_ver[d] = GH->ghost_ver[l];
      tm.xnew_ver[d] = GH->ghost_ver[l] + 1U;
#endif
    } else {
      tm.own[2][d] = -1;
      if (vs::Stat(tid).eff_writes != w0) vs::Violate("C07", "UPGRADE-EMPTY-WRITES", "UpgradeToX of a non-owning guard modified shared state");
    }
    ExpectBool("UpgradeToX(result)", static_cast<bool>(*X[d]), ph >= 0);
    ExpectBool("UpgradeToX(source)", static_cast<bool>(*X6[s]), false);
  } else if (mn == "DN") {
    const int s = Sl(o.a), d = Sl(o.b);
    if (!tm.engaged[2][s]) return;
    const int ph = tm.own[2][s];
    DestroySlot(1, d, "overwrite");
    w0 = vs::Stat(tid).eff_writes;
    if (ph >= 0) {
      vs::HbMark(tid, GH->phases[ph].bit);
      GH->phases[ph].conv = true;
      tm.pend_down = static_cast<int8_t>(ph);
      tm.down_result = -1;
      tm.pend_newver = NewVerOfX(s);
    }
    X6[d].emplace((*X[s]).DowngradeToSIX());
    tm.engaged[1][d] = 1;
    if (ph >= 0) {
      if (tm.pend_down >= 0) {
        tm.pend_down = -1;
        vs::Violate("C07,C10", "NO-DOWNGRADE-WRITE", Fmt("T%d: DowngradeToSIX of an owning guard did not modify the lock", tid));
        tm.own[1][d] = -1;
      } else {
        tm.own[1][d] = static_cast<int8_t>(tm.down_result);
      }
      tm.own[2][s] = -1;
    } else {
      tm.own[1][d] = -1;
      if (vs::Stat(tid).eff_writes != w0) vs::Violate("C07", "DOWNGRADE-EMPTY-WRITES", "DowngradeToSIX of a non-owning guard modified shared state");
    }
    ExpectBool("DowngradeToSIX(result)", static_cast<bool>(*X6[d]), ph >= 0);
    ExpectBool("DowngradeToSIX(source)", static_cast<bool>(*X[s]), false);
  } else if (mn == "W") {
    const int l = Lk(o.a);
    if (Holds(l, 1 << M_X)) PayloadWrite(l);
  } else if (mn == "R") {
    const int l = Lk(o.a);
    if (Holds(l, 7)) PayloadRead(l, true);
  } else if (mn == "K") {
    const int l = Lk(o.a);
    if (Holds(l, 1 << M_X)) {
      const long want = tm.last_read;
      PayloadRead(l, true);
      if (tm.last_read != want) {
        vs::Violate("C10", "UPGRADE-LOST-STATE",
                    Fmt("T%d: payload of lock %d read under SIX was %ld but is %ld after UpgradeToX returned", tid, l, want, tm.last_read));
      }
    }
  }
#if LK == 1
  else if (mn == "GV") {
    const int l = Lk(o.a);
    tm.snap.valid = false;
    opt = W->locks[l].GetVersion();
    opt_valid = true;
    tm.opt_lock = static_cast<int8_t>(l);
    tm.opt_ver = opt.GetVersion();
    auto &s = tm.snap;
    if (s.valid && s.lock == l) {
      if (s.xreg) vs::Violate("C03", "VERSION-DURING-X", Fmt("T%d: GetVersion returned 0x%x while an exclusive holder is active", tid, tm.opt_ver));
      if (s.ghost != tm.opt_ver) vs::Violate("C03,C09", "GETVERSION-VALUE", Fmt("T%d: GetVersion returned 0x%x but the lock's version is 0x%x", tid, tm.opt_ver, s.ghost));
      tm.opt_commits = s.commits;
      tm.opt_pay = s.pay;
    }
    if (vs::Stat(tid).eff_writes != w0) vs::Violate("C09", "GETVERSION-WRITES", "GetVersion modified the lock");
    ExpectBool("GetVersion", static_cast<bool>(opt), false);
    AddResult(tm, "v%x ", tm.opt_ver);
  } else if (mn == "RO") {
    PayloadRead(Lk(o.a), false);
  } else if (mn == "VV" || mn == "TS" || mn == "T6" || mn == "TX") {
    if (!opt_valid) return;
    const int l = tm.opt_lock;
    const uint32_t carried = opt.GetVersion();
    tm.snap.valid = false;
    bool ok = false;
    int kind = -1, d = Sl(o.a);
    if (mn == "VV") {
      ok = opt.VerifyVersion();
    } else {
      kind = mn == "TS" ? 0 : (mn == "T6" ? 1 : 2);
      DestroySlot(kind, d, "overwrite");
      w0 = vs::Stat(tid).eff_writes;
      if (kind == 0) {
        S[d].emplace(opt.TryLockS());
        ok = static_cast<bool>(*S[d]);
      } else if (kind == 1) {
        X6[d].emplace(opt.TryLockSIX());
        ok = static_cast<bool>(*X6[d]);
      } else {
        X[d].emplace(opt.TryLockX());
        ok = static_cast<bool>(*X[d]);
      }
    }
    auto &s = tm.snap;
    const char *nm = mn == "VV" ? "VerifyVersion" : (mn == "TS" ? "TryLockS" : (mn == "T6" ? "TryLockSIX" : "TryLockX"));
    if (s.valid && s.lock == l) {
      if (ok) {
        if (s.xreg) vs::Violate("C03", Fmt("SUCCESS-DURING-X:%s", nm), Fmt("T%d: %s succeeded while an exclusive holder is active", tid, nm));
        if (s.ghost != carried) vs::Violate("C03", Fmt("SUCCESS-STALE:%s", nm), Fmt("T%d: %s succeeded with version 0x%x but the lock's version is 0x%x", tid, nm, carried, s.ghost));
        if (!PROG.republish) {
          if (s.commits != tm.opt_commits) vs::Violate("C03", Fmt("SUCCESS-AFTER-COMMIT:%s", nm), Fmt("T%d: %s succeeded although %u exclusive section(s) committed since the version was obtained", tid, nm, s.commits - tm.opt_commits));
          if (tm.ro_a != -1 && (tm.ro_a != tm.ro_b || tm.ro_a != tm.opt_pay)) vs::Violate("C03", Fmt("INCONSISTENT-SNAPSHOT:%s", nm), Fmt("T%d: %s succeeded but the data read optimistically (%ld/%ld) is not the snapshot of that version (%ld)", tid, nm, tm.ro_a, tm.ro_b, tm.opt_pay));
        }
      } else {
        if (s.ghost == carried) vs::Violate("C03", Fmt("FAIL-UNCHANGED:%s", nm), Fmt("T%d: %s failed although the version 0x%x did not change", tid, nm, carried));
        if (opt.GetVersion() != s.ghost) vs::Violate("C03", Fmt("FAIL-NOT-REFRESHED:%s", nm), Fmt("T%d: after a failed %s the guard carries 0x%x, the lock's version is 0x%x", tid, nm, opt.GetVersion(), s.ghost));
      }
    }
    tm.ro_a = tm.ro_b = -1;
    if (kind >= 0) {
      Acquired(kind, d, l, static_cast<Mode>(kind), ok, false, nm, w0);
      if (!ok && vs::Stat(tid).eff_writes != w0) vs::Violate("C07,C09", Fmt("FAILED-TRY-WRITES:%s", nm), Fmt("T%d: a failed %s modified the lock", tid, nm));
      if (ok && kind == 2) {
        tm.xacq_ver[d] = GH->ghost_ver[l];
        tm.xnew_ver[d] = GH->ghost_ver[l] + 1U;
      }
    } else if (vs::Stat(tid).eff_writes != w0) {
      vs::Violate("C09", "VERIFY-WRITES", "VerifyVersion modified the lock");
    }
    if (s.valid && s.lock == l) {
      tm.opt_commits = s.commits;
      tm.opt_pay = s.pay;
    }
    tm.opt_ver = opt.GetVersion();
    AddResult(tm, "%s%d ", mn.c_str(), static_cast<int>(ok));
  } else if (mn == "PR") {
    const int l = Lk(o.a), s = Sl(o.b);
    DestroySlot(3, s, "overwrite");
    w0 = vs::Stat(tid).eff_writes;
    tm.snap.valid = false;
    C[s].emplace(W->locks[l].PrepareRead());
    const bool own = static_cast<bool>(*C[s]);
    auto &sn = tm.snap;
    if (sn.valid && sn.lock == l) {
      if (sn.xreg) vs::Violate("C13,C03", "PREPAREREAD-DURING-X", Fmt("T%d: PrepareRead returned while an exclusive holder is active", tid));
      if (own) {
        if (sn.nactive != 0) vs::Violate("C13", "PREPAREREAD-STACKED", Fmt("T%d: PrepareRead took a shared grant while %d other grant(s) were held", tid, sn.nactive));
      } else {
        if (sn.ghost != (*C[s]).GetVersion()) vs::Violate("C13,C03", "PREPAREREAD-VALUE", Fmt("T%d: PrepareRead returned version 0x%x but the lock's version is 0x%x", tid, (*C[s]).GetVersion(), sn.ghost));
      }
      tm.comp_commits[s] = sn.commits;
      tm.comp_pay[s] = sn.pay;
    }
    Acquired(3, s, l, M_S, own, false, "PrepareRead", w0);
    if (!own && vs::Stat(tid).eff_writes != w0) vs::Violate("C13,C09", "PREPAREREAD-WRITES", "a non-owning PrepareRead modified the lock");
    AddResult(tm, "P%d ", static_cast<int>(own));
  } else if (mn == "CV") {
    const int s = Sl(o.a);
    if (!tm.engaged[3][s]) return;
    const bool own = tm.own[3][s] >= 0;
    const uint32_t carried = (*C[s]).GetVersion();
    tm.snap.valid = false;
    const bool ok = (*C[s]).VerifyVersion();
    if (own) {
      if (!ok) vs::Violate("C13", "OWNING-VERIFY-FAILS", Fmt("T%d: VerifyVersion of an owning composite guard failed", tid));
      if (tm.ro_a != -1 && tm.ro_a != tm.ro_b) vs::Violate("C13,C01", "TORN-READ-UNDER-COMPOSITE", Fmt("T%d: torn read %ld/%ld under an owning composite guard", tid, tm.ro_a, tm.ro_b));
    } else {
      auto &sn = tm.snap;
      if (sn.valid) {
        if (ok) {
          if (sn.xreg) vs::Violate("C13,C03", "SUCCESS-DURING-X:Composite", "composite VerifyVersion succeeded while an exclusive holder is active");
          if (sn.ghost != carried) vs::Violate("C13,C03", "SUCCESS-STALE:Composite", Fmt("composite VerifyVersion succeeded with 0x%x, lock has 0x%x", carried, sn.ghost));
          if (!PROG.republish) {
            if (sn.commits != tm.comp_commits[s]) vs::Violate("C13,C03", "SUCCESS-AFTER-COMMIT:Composite", "composite VerifyVersion succeeded although an exclusive section committed");
            if (tm.ro_a != -1 && (tm.ro_a != tm.ro_b || tm.ro_a != tm.comp_pay[s])) vs::Violate("C13,C03", "INCONSISTENT-SNAPSHOT:Composite", Fmt("composite VerifyVersion succeeded but the data read (%ld/%ld) is not the snapshot (%ld)", tm.ro_a, tm.ro_b, tm.comp_pay[s]));
          }
        } else {
          if (sn.ghost == carried) vs::Violate("C13,C03", "FAIL-UNCHANGED:Composite", "composite VerifyVersion failed although the version did not change");
          if ((*C[s]).GetVersion() != sn.ghost) vs::Violate("C13,C03", "FAIL-NOT-REFRESHED:Composite", "failed composite VerifyVersion did not refresh the version");
        }
        tm.comp_commits[s] = sn.commits;
        tm.comp_pay[s] = sn.pay;
      }
    }
    if (vs::Stat(tid).eff_writes != w0) vs::Violate("C09,C13", "VERIFY-WRITES:Composite", "composite VerifyVersion modified the lock");
    tm.ro_a = tm.ro_b = -1;
    AddResult(tm, "CV%d ", static_cast<int>(ok));
  } else if (mn == "DC") {
    DestroySlot(3, Sl(o.a), "~CompositeGuard");
  } else if (mn == "MC") {
    const int s = Sl(o.a), d = Sl(o.b);
    if (!tm.engaged[3][s]) return;
    if (!tm.engaged[3][d]) {
      C[d].emplace();
      tm.engaged[3][d] = 1;
      tm.own[3][d] = -1;
    }
    Releasing("move-assignment(Composite)", tm.own[3][d], 0, [&] { *C[d] = std::move(*C[s]); }, "C07,C13");
    tm.own[3][d] = tm.own[3][s];
    tm.own[3][s] = -1;
    tm.comp_commits[d] = tm.comp_commits[s];
    tm.comp_pay[d] = tm.comp_pay[s];
  } else if (mn == "CC") {
    const int s = Sl(o.a), d = Sl(o.b);
    if (!tm.engaged[3][s] || s == d) return;
    DestroySlot(3, d, "overwrite");
    w0 = vs::Stat(tid).eff_writes;
    C[d].emplace(std::move(*C[s]));
    tm.engaged[3][d] = 1;
    tm.own[3][d] = tm.own[3][s];
    tm.own[3][s] = -1;
    tm.comp_commits[d] = tm.comp_commits[s];
    tm.comp_pay[d] = tm.comp_pay[s];
    if (vs::Stat(tid).eff_writes != w0) vs::Violate("C07,C13", "MOVE-CTOR-WRITES:Composite", "move construction of a composite guard modified the lock");
  } else if (mn == "SV") {
    const int s = Sl(o.a);
    if (!tm.engaged[2][s] || tm.own[2][s] < 0) return;
    uint32_t k = 0;
    switch (o.b) {
      case '0':
        k = 0;
        break;
      case 'm':
        k = 0xffffffffU;
        break;
      case 'p':
        k = tm.xacq_ver[s] + 2U;
        break;
      case 's':
        k = tm.xacq_ver[s];
        break;
      case 'q':
        k = tm.xacq_ver[s] - 1U;
        break;
      default:
        k = 0x80000000U;
        break;
    }
    (*X[s]).SetVersion(k);
    tm.xnew_ver[s] = k;
  } else if (mn == "XG") {
    const int s = Sl(o.a);
    if (!tm.engaged[2][s] || tm.own[2][s] < 0) return;
    const uint32_t v = (*X[s]).GetVersion();
    if (v != tm.xacq_ver[s]) vs::Violate("C09", "XGUARD-GETVERSION", Fmt("T%d: XGuard::GetVersion() is 0x%x but the version when the exclusive grant began was 0x%x", tid, v, tm.xacq_ver[s]));
  }
#endif
  else {
    vs::ViolateFatal("INTERNAL", "BAD-OP", "unknown operation " + o.text);
  }
  CheckAllBools(o.text.c_str());
}

/*----------------------------------------------------------------------------------------------
 * scenario
 *--------------------------------------------------------------------------------------------*/
void
Setup()
{
  GH = new Ghost{};
  W = new World{};
  for (int l = 0; l < kLocks; ++l) {
    W->pa[l] = W->pb[l] = 0;
  }
  for (auto &tm : GH->tm) {
    memset(tm.own, -1, sizeof tm.own);
    memset(tm.engaged, 0, sizeof tm.engaged);
  }
  for (auto &p : g_tls_node) p = nullptr;
#if LK == 1
  if (PROG.start_version != 0) {
    // sequential prefix through the public API: one exclusive section publishing the start version
    auto g = W->locks[0].LockX();
    g.SetVersion(PROG.start_version);
  }
  GH->ghost_ver[0] = PROG.start_version;
#endif
}

void
Body(int tid)
{
  if (tid < NT) {
    Interp in{tid};
    in.Run();
    return;
  }
  // epilogue thread (gated: runs after every program thread has finished)
  for (int l = 0; l < kLocks; ++l) {
    static char lab[2][32] = {"epilogue-LockX(0)", "epilogue-LockX(1)"};
    vs::SetCall(lab[l]);
    vs::Boundary(1000 + l);
    const uint32_t b0 = vs::Stat(tid).blocked;
    {
      auto g = W->locks[l].LockX();
      if (!static_cast<bool>(g)) vs::Violate("C07", "GUARD-BOOL:epilogue", "final LockX returned a non-owning guard");
      if (vs::Stat(tid).blocked != b0) {
        vs::Violate("C02", "LOCK-NOT-FREE", Fmt("after the last guard was released a fresh LockX on lock %d had to wait", l));
      }
#if LK == 1
      g.SetVersion(GH->ghost_ver[l]);  // keep the version for the final word check
#endif
    }
  }
}

void
Teardown()
{
  for (int l = 0; l < kLocks; ++l) {
    const uint64_t w = Word(l);
#if LK == 1
    const uint64_t want = (LAY.free_word & ~LAY.ver_mask) | (static_cast<uint64_t>(GH->ghost_ver[l]) << LAY.ver_shift);
    const char *props = "C02,C09,C07";
#else
    const uint64_t want = LAY.free_word;
    const char *props = "C02,C07";
#endif
    if (w != want) {
      vs::Violate(props, "FINAL-WORD",
                  Fmt("after all guards are gone lock %d holds 0x%" PRIx64 ", expected 0x%" PRIx64 " (free%s)", l, w, want,
                      LK == 1 ? ", version = ghost" : ""));
    }
  }
  for (auto &p : GH->phases) {
    if (p.active) {
      vs::Violate("C07", "LEFTOVER-GRANT", Fmt("T%d's %s grant on lock %d was never released", p.thread, kModeName[p.mode], p.lock));
    }
  }
#if LK == 2
  const size_t live = vs::LiveBlocksOfSize(sizeof(Lock));
  // W itself holds kLocks lock objects inside one block of different size; nodes are 8-byte blocks
  if (live != 0) {
    vs::Violate("C12", "NODE-LEAK", Fmt("%zu queue node(s) still allocated after all guards were released and all threads exited", live));
  }
#endif
  delete W;
  delete GH;
  W = nullptr;
  GH = nullptr;
}

uint64_t
GhostDigest()
{
  uint64_t h = 7;
  for (auto &p : GH->phases) {
    h = vs::Mix(h, (static_cast<uint64_t>(p.lock) << 40) | (static_cast<uint64_t>(p.thread) << 32) | (static_cast<uint64_t>(p.mode) << 24) |
                       (static_cast<uint64_t>(p.bit) << 16) | (p.active ? 2U : 0U) | (p.conv ? 1U : 0U));
    h = vs::Mix(h, p.arrival);
  }
  for (int l = 0; l < kLocks; ++l) {
    h = vs::Mix(h, GH->ghost_ver[l] | (static_cast<uint64_t>(GH->commits[l]) << 32));
  }
  h = vs::Mix(h, GH->arrivals);
  for (int t = 0; t <= NT; ++t) {
    auto &tm = GH->tm[t];
    h = vs::Mix(h, static_cast<uint64_t>(tm.pend_end + 3) * 256 + static_cast<uint64_t>(tm.pend_down + 3) + static_cast<uint64_t>(tm.upgrading + 2) * 65536);
    h = vs::Mix(h, tm.pend_newver);
    h = vs::Mix(h, tm.req.active ? (1 + tm.req.arrival * 8 + tm.req.mode * 2 + static_cast<uint64_t>(tm.req.lock) * 1024) : 0);
    if (tm.snap.valid) {
      h = vs::Mix(h, tm.snap.ghost ^ (static_cast<uint64_t>(tm.snap.commits) << 32));
      h = vs::Mix(h, (tm.snap.xreg ? 1U : 0U) | (static_cast<uint64_t>(tm.snap.nactive) << 1) | (static_cast<uint64_t>(tm.snap.pay) << 8));
    }
  }
  return h;
}

std::string
NameOf(const void *a)
{
  if (!W) return "";
  for (int l = 0; l < kLocks; ++l) {
    if (a == WordAddr(l)) return Fmt("lock%d.word", l);
    if (a == &W->pa[l]) return Fmt("payload%d.a", l);
    if (a == &W->pb[l]) return Fmt("payload%d.b", l);
  }
  auto bi = vs::BlockOf(a);
  if (bi.st != vs::B_NONE && bi.size == sizeof(Lock)) {
    return Fmt("node[T%d@%zx]", bi.owner, reinterpret_cast<size_t>(bi.base) & 0xffff);
  }
  return "";
}

std::string
Outcome()
{
  std::string s;
  for (int t = 0; t < NT; ++t) s += std::string(GH->tm[t].results) + "| ";
#if LK == 1
  s += Fmt("ver=%x", GH->ghost_ver[0]);
#endif
  return s;
}

vs::Scenario
MakeScenario()
{
  vs::Scenario s;
  s.nthreads = NT + (g_epilogue ? 1 : 0);
  s.gated_last = g_epilogue;
  s.setup = Setup;
  s.body = Body;
  s.teardown = Teardown;
  s.digest = GhostDigest;
  s.on_post = OnPost;
  s.on_point = OnPoint;
  s.name_of = NameOf;
  s.outcome = Outcome;
  // a deadlock while no grant is registered at all: every guard that owned a grant has been destroyed (its
  // release call performed its write), yet a request cannot be served -- a release that did not release (C07)
  // as much as a lost hand-off (C02)
  s.deadlock_tags = []() -> std::string {
    if (!GH) return "";
    for (auto &p : GH->phases)
      if (p.active) return "";
    return "C02,C07";
  };
  return s;
}

}  // namespace

/*----------------------------------------------------------------------------------------------
 * calibration of the lock-word layout (runs once per process, in a child, through the public API)
 *--------------------------------------------------------------------------------------------*/
namespace
{
struct alignas(64) CalStore {
  unsigned char b[sizeof(Lock) < 64 ? 64 : sizeof(Lock)];
};

bool
CalibrateChild(Layout *out)
{
  static CalStore store;
  memset(store.b, 0, sizeof store.b);
  Lock *lk = new (store.b) Lock{};
  constexpr size_t kWords = sizeof(Lock) / 8;
  auto snap = [&](uint64_t *v) { memcpy(v, store.b, kWords * 8); };
  uint64_t b0[kWords], b1[kWords], b2[kWords], b3[kWords], b4[kWords];
  snap(b0);
  {
    auto g = lk->LockS();
    snap(b1);
    {
      auto g2 = lk->LockS();
      snap(b2);
    }
    snap(b3);
  }
  snap(b4);
  // the lock word is the one 8-byte word that changes with a shared grant and comes back with its release
  int off = -1;
  for (size_t i = 0; i < kWords; ++i) {
    if (b1[i] != b0[i] && b4[i] == b0[i]) {
      if (off >= 0) return false;
      off = static_cast<int>(i);
    }
  }
  if (off < 0) return false;
  Layout L;
  L.fixed_off = 1;
  L.word_off = static_cast<uint64_t>(off) * 8;
  auto word = [&]() { return *reinterpret_cast<volatile uint64_t *>(store.b + L.word_off); };
  L.free_word = b0[off];
#if LK == 2
  // MCS: flags, counter and tail pointer share the word and grants are spread over queue nodes; only the position of
  // the word and its free value are used by the monitors
  L.mode = (L.word_off != 0 || L.free_word != 0) ? 1 : 0;
  snprintf(L.note, sizeof L.note, "%s: word at offset %" PRIu64 ", free word 0x%" PRIx64, L.mode ? "learnt" : "documented layout confirmed",
           L.word_off, L.free_word);
  *out = L;
  return true;
#else
  const uint64_t w0 = b0[off], w1 = b1[off], w2 = b2[off], w3 = b3[off];
  const uint64_t unit = w1 - w0;
  if (unit == 0 || (unit & (unit - 1)) != 0 || w2 - w1 != unit || w3 != w1) return false;
  L.s_unit = unit;
  uint64_t wsix = 0, wx = 0;
  {
    auto g = lk->LockSIX();
    wsix = word();
  }
  if (word() != w0) return false;
  {
    auto g = lk->LockX();
    wx = word();
#if LK == 1
    g.SetVersion(0);  // the default would publish version 1
#endif
  }
  if (word() != w0) return false;
  L.six = wsix ^ w0;
  L.x = wx ^ w0;
  auto single = [](uint64_t m) { return m != 0 && (m & (m - 1)) == 0; };
  if (!single(L.six) || !single(L.x) || L.six == L.x || L.six == unit || L.x == unit) return false;
  uint64_t special = L.six | L.x;
#if LK == 1
  {
    auto g = lk->LockX();
    g.SetVersion(0xffffffffU);
  }
  L.ver_mask = word() ^ w0;
  {
    auto g = lk->LockX();
    g.SetVersion(0);
  }
  if (word() != w0) return false;
  {
    auto g = lk->LockX();  // default: version + 1
  }
  const uint64_t one = word() ^ w0;
  {
    auto g = lk->LockX();
    g.SetVersion(0);
  }
  if (word() != w0 || L.ver_mask == 0) return false;
  L.ver_shift = static_cast<uint32_t>(__builtin_ctzll(L.ver_mask));
  if ((L.ver_mask >> L.ver_shift) != 0xffffffffULL || one != (1ULL << L.ver_shift)) return false;
  if ((L.ver_mask & (special | unit)) != 0) return false;
  special |= L.ver_mask;
#endif
  // the counter field: from its unit up to the next bit that has another meaning
  uint64_t mask = 0;
  for (uint64_t b = unit; b != 0 && (b & special) == 0; b <<= 1U) mask |= b;
  L.s_mask = mask;
  if ((mask & (mask + unit)) != 0 && mask + unit != 0) return false;  // contiguous by construction; defensive
  const Layout doc{};
  L.mode = (L.word_off != 0 || L.free_word != 0 || L.x != doc.x || L.six != doc.six || L.s_unit != doc.s_unit || L.s_mask != doc.s_mask ||
            L.ver_mask != doc.ver_mask)
               ? 1
               : 0;
  snprintf(L.note, sizeof L.note, "%s: off %" PRIu64 " free 0x%" PRIx64 " X 0x%" PRIx64 " SIX 0x%" PRIx64 " S unit 0x%" PRIx64 " S mask 0x%" PRIx64 " ver 0x%" PRIx64,
           L.mode ? "learnt" : "documented layout confirmed", L.word_off, L.free_word, L.x, L.six, L.s_unit, L.s_mask, L.ver_mask);
  *out = L;
  return true;
#endif
}

// The calibration runs library code outside the scheduler; it is done in a child process with a CPU-time limit so
// that a library that hangs or crashes there cannot take the harness with it (the documented layout is then used).
void
Calibrate()
{
  int fd[2];
  if (pipe(fd) != 0) return;
  fflush(stdout);
  fflush(stderr);
  const pid_t pid = fork();
  if (pid < 0) return;
  if (pid == 0) {
    close(fd[0]);
    struct rlimit rl{5, 5};
    setrlimit(RLIMIT_CPU, &rl);
    Layout L;
    if (CalibrateChild(&L)) {
      if (write(fd[1], &L, sizeof L) != static_cast<ssize_t>(sizeof L)) _exit(3);
      _exit(0);
    }
    _exit(1);
  }
  close(fd[1]);
  Layout L;
  size_t got = 0;
  while (got < sizeof L) {
    const ssize_t n = read(fd[0], reinterpret_cast<char *>(&L) + got, sizeof L - got);
    if (n <= 0) break;
    got += static_cast<size_t>(n);
  }
  close(fd[0]);
  int st = 0;
  waitpid(pid, &st, 0);
  if (got == sizeof L && WIFEXITED(st) && WEXITSTATUS(st) == 0) {
    LAY = L;
    g_word_off = static_cast<size_t>(L.word_off);
  } else {
    snprintf(LAY.note, sizeof LAY.note, "documented layout (calibration inconsistent: child status 0x%x)", st);
  }
}
}  // namespace

/*----------------------------------------------------------------------------------------------
 * guard-algebra BFS (--galg DEPTH): breadth-first search over single-thread operation histories
 *--------------------------------------------------------------------------------------------*/
namespace
{
// what the driver has to know to enumerate the operations that are *admissible* after a history (operations that
// would make the thread wait for itself are excluded); the checking is done by the monitors, not by this model
struct GModel {
  int8_t sl[4][2];  // per guard kind (S, SIX, X, composite) and slot: -2 absent, -1 present but not owning, l >= 0 owning lock l
  bool opt = false;
  int8_t opt_lock = 0;
  GModel() { memset(sl, -2, sizeof sl); }
  int
  NS(int l, int xk = -1, int xs = -1) const
  {
    int n = 0;
    for (int k : {0, 3})
      for (int s = 0; s < 2; ++s)
        if (!(k == xk && s == xs) && sl[k][s] == l) ++n;
    return n;
  }
  bool
  Has(int k, int l, int xk = -1, int xs = -1) const
  {
    for (int s = 0; s < 2; ++s)
      if (!(k == xk && s == xs) && sl[k][s] == l) return true;
    return false;
  }
  bool
  Can(int mode, int l, int xk, int xs) const
  {
    const bool x = Has(2, l, xk, xs), six = Has(1, l, xk, xs);
#if LK == 2
    if (mode == 0) return !x && !six;  // MCS: a shared request queues behind a SIX holder (it may upgrade)
#endif
    if (mode == 0) return !x;
    if (mode == 1) return !x && !six;
    return !x && !six && NS(l, xk, xs) == 0;
  }
  // MCS: the release of a SIX grant waits for the shared grants that were there before it, this thread's included
  bool
  MayEndSix(int s) const
  {
#if LK == 2
    const int l = sl[1][s];
    return l < 0 || NS(l) == 0;
#else
    (void)s;
    return true;
#endif
  }
  std::string
  Str() const
  {
    std::string r;
    for (auto &k : sl)
      for (int v : k) r += static_cast<char>('c' + v);
    r += opt ? static_cast<char>('0' + opt_lock) : '-';
    return r;
  }
};

struct GNode {
  GModel m;
  std::string hist;
  bool rejoin = false;  // some acquisition of the history was issued while the thread held another grant on the same lock
};

void
GalgSuccessors(const GNode &n, std::vector<GNode> &out)
{
  static const char kK[3] = {'S', '6', 'X'};
  static const char kSl[2] = {'a', 'b'};
  bool rejoin_now = false;
  auto push = [&](const std::string &op, const GModel &m) { out.push_back(GNode{m, n.hist.empty() ? op : n.hist + " " + op, n.rejoin || rejoin_now}); };
  for (int k = 0; k < 3; ++k) {
    for (int s = 0; s < 2; ++s) {
      // acquire (the slot is released first when it is occupied); lock 1 only into slot b
      for (int l = 0; l < 2; ++l) {
        if (l == 1 && s == 0) continue;
        if (!n.m.Can(k, l, k, s)) continue;
        if (k == 1 && !n.m.MayEndSix(s)) continue;
        GModel m = n.m;
        m.sl[k][s] = static_cast<int8_t>(l);
        // (a composite guard may own a shared grant on lock 0 once another thread is there: PrepareRead falls back)
        rejoin_now = n.m.NS(l, k, s) > 0 || n.m.Has(1, l, k, s) || n.m.Has(2, l, k, s) || (l == 0 && (n.m.sl[3][0] != -2 || n.m.sl[3][1] != -2));
        push(std::string("L") + kK[k] + static_cast<char>('0' + l) + kSl[s], m);
        rejoin_now = false;
      }
      if (n.m.sl[k][s] != -2 && (k != 1 || n.m.MayEndSix(s))) {
        GModel m = n.m;
        m.sl[k][s] = -2;
        push(std::string("D") + kK[k] + kSl[s], m);
      }
      if (n.m.sl[k][s] != -1 && (k != 1 || n.m.MayEndSix(s))) {  // default construction (over nothing or over an owning guard)
        GModel m = n.m;
        m.sl[k][s] = -1;
        push(std::string("E") + kK[k] + kSl[s], m);
      }
      const int d = 1 - s;
      if (n.m.sl[k][s] != -2 && (k != 1 || n.m.MayEndSix(d))) {
        GModel m = n.m;
        m.sl[k][d] = n.m.sl[k][s];
        m.sl[k][s] = -1;
        push(std::string("M") + kK[k] + kSl[s] + kSl[d], m);  // move assignment (an absent target is default-constructed first)
        push(std::string("C") + kK[k] + kSl[s] + kSl[d], m);  // move construction (a present target is destroyed first)
      }
    }
  }
  for (int s = 0; s < 2; ++s)
    for (int d = 0; d < 2; ++d) {
      if (n.m.sl[1][s] != -2) {  // UpgradeToX: waits for every shared holder, this thread's own included
        const int l = n.m.sl[1][s];
        if (l < 0 || n.m.NS(l) == 0) {
          GModel m = n.m;
          m.sl[2][d] = n.m.sl[1][s];
          m.sl[1][s] = -1;
          rejoin_now = n.m.sl[3][0] != -2 || n.m.sl[3][1] != -2;
          push(std::string("UP") + kSl[s] + kSl[d], m);
          rejoin_now = false;
        }
      }
      if (n.m.sl[2][s] != -2 && n.m.MayEndSix(d)) {
        GModel m = n.m;
        m.sl[1][d] = n.m.sl[2][s];
        m.sl[2][s] = -1;
        push(std::string("DN") + kSl[s] + kSl[d], m);
      }
    }
#if LK == 1
  for (int s = 0; s < 2; ++s) {
    if (n.m.sl[2][s] >= 0) {
      push(std::string("SV") + kSl[s] + "p", n.m);
      push(std::string("XG") + kSl[s], n.m);
    }
  }
  if (!n.m.Has(2, 0)) {
    GModel m = n.m;
    m.opt = true;
    m.opt_lock = 0;
    push("GV0", m);
    for (int s = 0; s < 2; ++s) {
      GModel c = n.m;
      if (c.sl[3][s] < 0 || true) {
        c.sl[3][s] = -1;  // single thread: PrepareRead never has to fall back to a shared lock
        push(std::string("PR0") + kSl[s], c);
      }
    }
  }
  if (n.m.opt && !n.m.Has(2, n.m.opt_lock)) {
    push("VV", n.m);
    const int l = n.m.opt_lock;
    for (int k = 0; k < 3; ++k) {
      if (!n.m.Can(k, l, k, 0)) continue;
      GModel m = n.m;
      m.sl[k][0] = static_cast<int8_t>(l);  // the carried version is current unless an exclusive section of this thread ended since: then the guard is empty
      push(std::string("T") + kK[k] + "a", m);
    }
  }
  for (int s = 0; s < 2; ++s) {
    if (n.m.sl[3][s] != -2) {
      GModel m = n.m;
      m.sl[3][s] = -2;
      push(std::string("DC") + kSl[s], m);
      if (!n.m.Has(2, 0)) push(std::string("CV") + kSl[s], n.m);
      GModel mv = n.m;
      mv.sl[3][1 - s] = n.m.sl[3][s];
      mv.sl[3][s] = -1;
      push(std::string("MC") + kSl[s] + kSl[1 - s], mv);
      push(std::string("CC") + kSl[s] + kSl[1 - s], mv);
    }
  }
#endif
}
}  // namespace

/*----------------------------------------------------------------------------------------------
 * driver
 *--------------------------------------------------------------------------------------------*/
namespace
{
struct Args {
  std::string mode = "explore";  // explore | replay | list
  std::vector<std::string> families;
  std::string program;
  std::string choices;
  int bound = 2;
  int dev = 0;
  int nproc = 16;
  double budget = 60;      // global seconds
  double job_budget = 30;  // per program
  bool cache = true;
  std::string out;
  size_t max_programs = 0;
  bool no_epilogue = false;
  bool iterate = true;
  int galg = 0;
  std::string galg_roots;  // comma-separated program prefixes (e.g. "v=1;"), "-" = the empty prefix
  std::string galg_contend;  // comma-separated section names: every state representative of the search runs against each of them
};

vs::Config
MakeConfig(const Args &a)
{
  vs::Config c;
  c.bound = a.bound;
  c.dev_bound = a.dev;
  c.cache = a.cache;
  c.budget_s = a.job_budget;
  c.iterate = a.iterate;
  c.nrep = CPP_UTILITY_SPINLOCK_RETRY_NUM + 3;
  return c;
}
}  // namespace

int
main(int argc, char **argv)
{
  Args a;
  for (int i = 1; i < argc; ++i) {
    std::string k = argv[i];
    auto val = [&]() -> std::string { return i + 1 < argc ? argv[++i] : ""; };
    if (k == "--replay") {
      a.mode = "replay";
    } else if (k == "--list") {
      a.mode = "list";
    } else if (k == "--family") {
      a.families.push_back(val());
    } else if (k == "--program") {
      a.program = val();
    } else if (k == "--choices") {
      a.choices = val();
    } else if (k == "--bound") {
      a.bound = atoi(val().c_str());
    } else if (k == "--dev") {
      a.dev = atoi(val().c_str());
    } else if (k == "--nproc") {
      a.nproc = atoi(val().c_str());
    } else if (k == "--budget") {
      a.budget = atof(val().c_str());
    } else if (k == "--job-budget") {
      a.job_budget = atof(val().c_str());
    } else if (k == "--no-cache") {
      a.cache = false;
    } else if (k == "--no-iterate") {
      a.iterate = false;
    } else if (k == "--out") {
      a.out = val();
    } else if (k == "--max-programs") {
      a.max_programs = static_cast<size_t>(atol(val().c_str()));
    } else if (k == "--no-epilogue") {
      a.no_epilogue = true;
    } else if (k == "--galg") {
      a.galg = atoi(val().c_str());
    } else if (k == "--galg-roots") {
      a.galg_roots = val();
    } else if (k == "--galg-contend") {
      a.galg_contend = val();
    } else {
      fprintf(stderr, "unknown argument %s\n", k.c_str());
      return 2;
    }
  }
  g_epilogue = !a.no_epilogue;
  Calibrate();
  if (a.mode == "replay") {
    PROG = Parse(a.program);
    NT = static_cast<int>(PROG.th.size());
    auto scn = MakeScenario();
    auto cfg = MakeConfig(a);
    printf("== replay %s program: %s\n", kLockName, a.program.c_str());
    auto r = vs::Replay(scn, cfg, vs::ChoicesFromString(a.choices), stdout);
    for (auto &v : r.violations) printf("VIOLATION-DETAIL [%s] %s: %s\n", v.props.c_str(), v.sig.c_str(), v.msg.c_str());
    fflush(stdout);
    _exit(r.violations.empty() ? 0 : 1);
  }
  if (a.galg > 0) {
    // breadth-first search over single-thread histories of guard operations. Every history is executed on fresh
    // locks under the scheduler (one thread + the epilogue thread: one execution), judged by all monitors, and
    // keyed by (admissibility model, canonical implementation state); only histories that reach a new key are extended.
    FILE *out = a.out.empty() ? stdout : fopen(a.out.c_str(), "w");
    if (!out) {
      perror("open out");
      return 2;
    }
    g_galg = true;
    const double t0 = vs::Now();
    std::vector<std::string> roots = {""};
#if LK == 1
    roots.push_back("v=fffffffe;");
#endif
    if (!a.galg_roots.empty()) {
      roots.clear();
      std::stringstream rs(a.galg_roots);
      std::string r;
      while (std::getline(rs, r, ',')) roots.push_back(r == "-" ? "" : r);
    }
    int rc = 0;
    size_t total_states = 0, total_trans = 0, violating = 0;
    int depth_done = a.galg;
    bool cut = false;
    std::vector<std::string> reps;  // one history per distinct (admissibility, implementation) state, for --galg-contend
    for (auto &root : roots) {
      std::set<std::string> seen;
      std::vector<GNode> frontier = {GNode{GModel{}, ""}};
      seen.insert(frontier[0].m.Str() + ":root");
      ++total_states;
      for (int d = 1; d <= a.galg && !frontier.empty(); ++d) {
        std::vector<GNode> cand;
        for (auto &n : frontier) GalgSuccessors(n, cand);
        constexpr size_t kBatch = 48;
        struct One {
          bool ran = false, internal = false;
          uint64_t key = 0, ex = 0, st = 0;
          size_t nv = 0;
          std::string json, err;
        };
        std::vector<One> ones(cand.size());
        auto run_one = [&](const std::string &prog) -> std::string {
          PROG = Parse(prog);
          NT = static_cast<int>(PROG.th.size());
          auto scn = MakeScenario();
          auto cfg = MakeConfig(a);
          cfg.bound = 0;
          cfg.iterate = false;
          g_galg_key = 0;
          auto r = vs::Explore(scn, cfg);
          char head[160];
          size_t nfatal = 0;
          for (auto &v : r.violations) nfatal += v.fatal ? 1 : 0;
          // violations: count, +1000000 when one of them ended the execution (deadlock, crash, horizon)
          snprintf(head, sizeof head, "%016" PRIx64 "\x01%" PRIu64 "\x01%" PRIu64 "\x01%zu\x01", g_galg_key, static_cast<uint64_t>(r.executions),
                   static_cast<uint64_t>(r.steps), r.violations.size() + (nfatal ? 1000000 : 0));
          return std::string(head) + (r.violations.empty() ? std::string() : vs::ResultToJson(r)) + "\n";
        };
        auto parse_lines = [&](const std::string &txt, size_t first, size_t count) {
          size_t pos = 0;
          for (size_t i = 0; i < count; ++i) {
            const size_t nl = txt.find('\n', pos);
            if (nl == std::string::npos) break;
            const std::string line = txt.substr(pos, nl - pos);
            pos = nl + 1;
            unsigned long long k = 0, e2 = 0, s2 = 0;
            size_t nv = 0;
            if (sscanf(line.c_str(), "%llx\x01%llu\x01%llu\x01%zu\x01", &k, &e2, &s2, &nv) != 4) break;
            auto &o = ones[first + i];
            o.ran = true;
            o.key = k;
            o.ex = e2;
            o.st = s2;
            o.nv = nv;
            size_t p = 0;
            for (int f = 0; f < 4; ++f) p = line.find('\x01', p) + 1;
            o.json = line.substr(p);
          }
        };
        bool level_cut = false;
        {
          std::vector<vs::Job> jobs;
          for (size_t b = 0; b < cand.size(); b += kBatch) jobs.push_back(vs::Job{std::to_string(b), ""});
          const double left = a.budget - (vs::Now() - t0);
          if (left <= 0) {
            cut = true;
            depth_done = std::min(depth_done, d - 1);
            break;
          }
          // several histories per forked child (a fork costs more than an execution); a child that does not deliver
          // all of its results is followed by one child per missing history
          auto results = vs::RunJobs(jobs, a.nproc, a.job_budget + 60, left, [&](const vs::Job &j) {
            const size_t b = static_cast<size_t>(atol(j.name.c_str()));
            std::string outs;
            for (size_t i = b; i < std::min(cand.size(), b + kBatch); ++i) outs += run_one(root + cand[i].hist);
            return outs;
          });
          for (size_t jb = 0; jb < results.size(); ++jb) {
            if (results[jb].status == 3) {
              level_cut = true;
              continue;
            }
            const size_t b = jb * kBatch;
            parse_lines(results[jb].json, b, std::min(kBatch, cand.size() - b));
          }
          if (!level_cut) {
            std::vector<vs::Job> singles;
            std::vector<size_t> which;
            for (size_t i = 0; i < cand.size(); ++i)
              if (!ones[i].ran) {
                singles.push_back(vs::Job{root + cand[i].hist, ""});
                which.push_back(i);
              }
            if (!singles.empty()) {
              auto r2 = vs::RunJobs(singles, a.nproc, a.job_budget + 60, std::max(1.0, a.budget - (vs::Now() - t0)),
                                    [&](const vs::Job &j) { return run_one(j.name); });
              for (size_t q = 0; q < r2.size(); ++q) {
                if (r2[q].status == 3) {
                  level_cut = true;
                  continue;
                }
                parse_lines(r2[q].json, which[q], 1);
                if (!ones[which[q]].ran) {
                  ones[which[q]].internal = true;
                  ones[which[q]].err = r2[q].err.empty() ? "no result" : r2[q].err;
                }
              }
            }
          }
        }
        std::vector<GNode> next;
        uint64_t execs = 0, steps = 0;
        size_t clean = 0;
        for (size_t i = 0; i < cand.size(); ++i) {
          auto &o = ones[i];
          if (!o.ran && !o.internal) continue;  // not run: deadline
          ++total_trans;
          if (o.internal || o.nv != 0) {
            fprintf(out, "{\"lock\":\"%s\",\"program\":\"%s\",\"status\":%d,\"err\":\"%s\",\"result\":%s}\n", kLockName,
                    vs::JsonEscape(root + cand[i].hist).c_str(), o.internal ? 2 : 1, vs::JsonEscape(o.err).c_str(), o.json.empty() ? "null" : o.json.c_str());
            if (o.internal) rc = 2;
            ++violating;
            // a history whose execution could not finish is not extended; one that violated a monitor but ran to its
            // end is (a later operation may be the one that breaks *another* property), up to a cap on the output
            if (o.internal || o.nv >= 1000000 || violating > 4000) continue;
          } else {
            execs += o.ex;
            steps += o.st;
            ++clean;
          }
          char kb[24];
          snprintf(kb, sizeof kb, ":%016" PRIx64, o.key);
          if (seen.insert(cand[i].m.Str() + kb).second) {
            next.push_back(cand[i]);
            ++total_states;
            // a thread that asks for a lock on which it already holds a grant can wait for ever once another thread stands
            // in between (MCSLock: a conflicting request queued behind its first grant; all classes: a SIX holder that
            // upgrades and waits for this thread's shared grant) - a lock-order cycle of the client, not a defect
            if (o.nv == 0 && !cand[i].rejoin) reps.push_back(root + cand[i].hist);
          }
        }
        // one aggregated row for the histories of this level that satisfied every monitor
        fprintf(out,
                "{\"lock\":\"%s\",\"program\":\"galg %sdepth %d: %zu histories\",\"status\":0,\"err\":\"\",\"result\":{\"programs\":%zu,\"executions\":%" PRIu64
                ",\"steps\":%" PRIu64 ",\"choice_points\":0,\"states\":%zu,\"pruned\":0,\"blocked_execs\":0,\"cache_saturated\":0,\"bound_completed\":0,"
                "\"exhaustive\":%s,\"n_outcomes\":1,\"outcomes\":[],\"sample_trace\":\"\",\"violations\":[]}}\n",
                kLockName, root.c_str(), d, clean, clean, execs, steps, next.size(), level_cut ? "false" : "true");
        if (level_cut) {
          cut = true;
          depth_done = std::min(depth_done, d - 1);
          break;
        }
        frontier.swap(next);
      }
    }
    size_t contended = 0;
    if (!a.galg_contend.empty() && rc == 0) {
      // guard algebra under contention: every state representative as thread 0 against one contender section on lock 0,
      // all interleavings within the bound of this run
      g_galg = false;
      std::vector<std::string> secs;
      {
        std::stringstream cs(a.galg_contend);
        std::string c;
        while (std::getline(cs, c, ',')) secs.push_back(c);
      }
      std::vector<vs::Job> jobs;
      for (auto &h : reps)
        for (auto &c : secs) jobs.push_back(vs::Job{h + " | " + lockprog::Sec(c, '0'), ""});
      const double left = a.budget - (vs::Now() - t0);
      if (left <= 1) {
        cut = true;
      } else {
        auto results = vs::RunJobs(jobs, a.nproc, a.job_budget + 60, left, [&](const vs::Job &j) {
          PROG = Parse(j.name);
          NT = static_cast<int>(PROG.th.size());
          auto scn = MakeScenario();
          auto cfg = MakeConfig(a);
          auto r = vs::Explore(scn, cfg);
          return vs::ResultToJson(r);
        });
        for (auto &r : results) {
          fprintf(out, "{\"lock\":\"%s\",\"program\":\"%s\",\"status\":%d,\"err\":\"%s\",\"result\":%s}\n", kLockName,
                  vs::JsonEscape(r.job.name).c_str(), r.status, vs::JsonEscape(r.err).c_str(), r.json.empty() ? "null" : r.json.c_str());
          if (r.status == 2) rc = 2;
          ++contended;
        }
      }
    }
    fprintf(out, "{\"summary\":true,\"lock\":\"%s\",\"programs\":%zu,\"wall_s\":%.3f,\"layout\":\"%s\",\"galg_depth_completed\":%d,\"galg_states\":%zu,\"galg_transitions\":%zu,\"galg_contended_programs\":%zu,\"cut\":%s}\n",
            kLockName, total_trans + contended, vs::Now() - t0, vs::JsonEscape(LAY.note).c_str(), depth_done, total_states, total_trans, contended, cut ? "true" : "false");
    if (out != stdout) fclose(out);
    return rc;
  }
  // program list
  std::vector<std::string> programs;
  if (!a.program.empty()) programs.push_back(a.program);
  for (auto &f : a.families) {
    auto ps = lockprog::Family(f, LK);
    programs.insert(programs.end(), ps.begin(), ps.end());
  }
  {
    std::set<std::string> seen;
    std::vector<std::string> uniq;
    for (auto &p : programs)
      if (seen.insert(p).second) uniq.push_back(p);
    programs.swap(uniq);
  }
  if (a.max_programs && programs.size() > a.max_programs) programs.resize(a.max_programs);
  if (a.mode == "list") {
    for (auto &p : programs) puts(p.c_str());
    return 0;
  }
  std::vector<vs::Job> jobs;
  for (auto &p : programs) jobs.push_back(vs::Job{p, ""});
  const double t0 = vs::Now();
  auto results = vs::RunJobs(jobs, a.nproc, a.job_budget + 60, a.budget, [&](const vs::Job &j) {
    PROG = Parse(j.name);
    NT = static_cast<int>(PROG.th.size());
    auto scn = MakeScenario();
    auto cfg = MakeConfig(a);
    auto r = vs::Explore(scn, cfg);
    return vs::ResultToJson(r);
  });
  // aggregate as JSON lines
  FILE *out = a.out.empty() ? stdout : fopen(a.out.c_str(), "w");
  if (!out) {
    perror("open out");
    return 2;
  }
  int rc = 0;
  for (auto &r : results) {
    fprintf(out, "{\"lock\":\"%s\",\"program\":\"%s\",\"status\":%d,\"err\":\"%s\",\"result\":%s}\n", kLockName,
            vs::JsonEscape(r.job.name).c_str(), r.status, vs::JsonEscape(r.err).c_str(), r.json.empty() ? "null" : r.json.c_str());
    if (r.status == 2) rc = 2;
  }
  fprintf(out, "{\"summary\":true,\"lock\":\"%s\",\"programs\":%zu,\"wall_s\":%.3f,\"layout\":\"%s\"}\n", kLockName, results.size(), vs::Now() - t0,
          vs::JsonEscape(LAY.note).c_str());
  if (out != stdout) fclose(out);
  return rc;
}
