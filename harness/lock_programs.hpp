// lock_programs.hpp — generators of client programs (text form) for the lock harness.
// A section is one use of the lock by one thread; programs are canonical modulo thread renaming.
#pragma once
#include <algorithm>
#include <map>
#include <set>
#include <string>
#include <vector>

namespace lockprog
{
using Strs = std::vector<std::string>;

// section macros on lock `l` ('0' or '1'), slot 'a'
inline std::string
Sec(const std::string &name, char l = '0')
{
  const std::string L(1, l);
  static const std::map<std::string, std::string> m = {
      {"S", "LS#a R# DSa"},
      {"SIX", "L6#a R# D6a"},
      {"X", "LX#a W# DXa"},
      {"U", "L6#a R# UPaa K# W# DXa"},
      {"D", "LX#a W# DNaa R# D6a"},
      {"DU", "LX#a W# DNaa R# UPaa K# W# DXa"},
      {"UD", "L6#a R# UPaa K# W# DNaa R# D6a"},
      // guard algebra
      {"Xm", "LX#a CXab W# DXb DXa"},          // X held through move construction
      {"Sm", "LS#a CSab R# DSb DSa"},
      {"6m", "L6#a C6ab R# D6b D6a"},
      {"Xn", "LX#a CXab DXa W# DXb"},          // ... and the moved-from source destroyed first (a guard returned from a function)
      {"Sn", "LS#a CSab DSa R# DSb"},
      {"6n", "L6#a C6ab D6a R# D6b"},
      {"Xb", "LX#a EXb MXab DXa W# DXb"},      // move assignment onto an empty guard, source destroyed first
      {"Sb", "LS#a ESb MSab DSa R# DSb"},
      {"6b", "L6#a E6b M6ab D6a R# D6b"},
      {"Xa", "LX#a EXb MXab W# DXa DXb"},      // move assignment onto an empty guard
      {"Sa", "LS#a ESb MSab R# DSa DSb"},
      {"6a", "L6#a E6b M6ab R# D6a D6b"},
      {"Xo", "LX#a W# LX1b W1 MXab W# DXb DXa"},  // move assignment over an owning guard (other lock)
      {"So", "LS#a LS1b MSab R# DSb DSa"},
      {"Ss", "LS#a LS#b MSab R# DSb DSa"},       // two shared grants on one lock, one move-assigned over the other
      {"Sd", "LS#a LS#b MSba R# DSa DSb"},
      {"6o", "L6#a L61b M6ab R# D6b D6a"},
      {"e", "ESa DSa E6a D6a EXa DXa"},        // empty guards
      {"eU", "E6a UPaa DXa D6a"},              // conversions of empty guards
      {"eD", "EXa DNaa D6a DXa"},
      {"Um", "L6#a R# UPaa CXab K# W# DXb DXa D6a"},
      {"Dm", "LX#a W# DNaa C6ab R# D6b D6a DXa"},
      {"SS", "LS#a LS#b R# DSa R# DSb"},       // two shared grants in one thread
      {"S6", "LS#a L6#b R# DSa R# D6b"},       // S then SIX in one thread (S released first)
      // optimistic
      {"O", "GV# RO# VV"},
      {"OO", "GV# RO# VV RO# VV"},
      {"OS", "GV# RO# TSa R# DSa"},
      {"O6", "GV# RO# T6a R# D6a"},
      {"OX", "GV# RO# TXa W# DXa"},
      {"OXg", "GV# TXa XGa W# DXa"},
      {"OU", "GV# RO# T6a R# UPaa K# W# DXa"},
      {"P", "PR#a RO# CVa DCa"},
      {"Pm", "PR#a CCab RO# CVb DCb DCa"},
      {"Pn", "PR#a CCab DCa RO# CVb DCb"},        // moved-from composite guard destroyed while the new one is in use
      {"Pc", "PR#a PR1b MCab DCa RO# CVb DCb"},
      {"Pa", "PR#a PR1b MCab RO# CVb DCb DCa"},
      {"Pb", "PR#b PR1a MCab RO1 CVb DCb DCa"},   // a (possibly owning) guard of this lock overwritten by another lock's guard
      {"PP", "PR#a RO# CVa DCa PR#a RO# CVa DCa"},
      {"Xg", "LX#a XGa W# DXa"},
      {"Xvp", "LX#a SVap W# DXa"},
      {"Xv0", "LX#a SVa0 W# DXa"},
      {"Xvm", "LX#a SVam W# DXa"},
      {"Xvs", "LX#a SVas W# DXa"},
      {"Xvq", "LX#a SVaq W# DXa"},
      {"Dvp", "LX#a SVap W# DNaa R# D6a"},
      {"Dvs", "LX#a SVas W# DNaa R# D6a"},
      {"Ug", "L6#a R# UPaa XGa K# W# DXa"},
      {"Xmv", "LX#a SVap CXab W# DXb DXa"},
      {"Xav", "LX#a SVap EXb MXab XGb W# DXa DXb"},
      {"Xov", "LX#a W# LX1b SVbp W1 MXab W# DXb DXa"},
      {"Xp", "LX1a LX#b W# MXab DXb DXa"},      // exclusive grant on this lock ended by move assignment of another lock's guard
  };
  auto it = m.find(name);
  std::string s = it == m.end() ? name : it->second;
  std::string o;
  for (char c : s) o += (c == '#') ? l : c;
  return o;
}

inline std::string
Join(const Strs &threads)
{
  std::string s;
  for (size_t i = 0; i < threads.size(); ++i) {
    if (i) s += " | ";
    s += threads[i];
  }
  return s;
}

// all scripts made of 1..maxlen sections from the alphabet
inline Strs
Scripts(const Strs &alphabet, int maxlen)
{
  Strs out;
  Strs cur = {""};
  for (int len = 1; len <= maxlen; ++len) {
    Strs nxt;
    for (auto &p : cur)
      for (auto &a : alphabet) nxt.push_back(p.empty() ? Sec(a) : p + " " + Sec(a));
    out.insert(out.end(), nxt.begin(), nxt.end());
    cur = nxt;
  }
  return out;
}

// multisets of size n over `scripts` (programs modulo thread renaming)
inline void
Multisets(const Strs &scripts, int n, size_t from, Strs &cur, Strs &out)
{
  if (static_cast<int>(cur.size()) == n) {
    out.push_back(Join(cur));
    return;
  }
  for (size_t i = from; i < scripts.size(); ++i) {
    cur.push_back(scripts[i]);
    Multisets(scripts, n, i, cur, out);
    cur.pop_back();
  }
}

inline Strs
Programs(const Strs &alphabet, int nthreads, int maxlen)
{
  Strs out, cur;
  Multisets(Scripts(alphabet, maxlen), nthreads, 0, cur, out);
  return out;
}

// one script from `first` combined with a multiset of (n-1) scripts from `rest`
inline Strs
Cross(const Strs &first, const Strs &rest_alphabet, int nrest, int maxlen = 1)
{
  Strs out;
  Strs rest, cur;
  Multisets(Scripts(rest_alphabet, maxlen), nrest, 0, cur, rest);
  for (auto &f : first)
    for (auto &r : rest) out.push_back(Sec(f) + " | " + r);
  return out;
}

inline Strs
WithPrefix(const Strs &ps, const std::string &prefix_per_thread)
{
  Strs out;
  for (auto &p : ps) {
    std::string s = prefix_per_thread + " ";
    for (size_t i = 0; i < p.size(); ++i) {
      s += p[i];
      if (p[i] == '|') s += " " + prefix_per_thread;
    }
    out.push_back(s);
  }
  return out;
}

inline Strs
WithVersion(const Strs &ps, const std::string &hexver)
{
  Strs out;
  for (auto &p : ps) out.push_back("v=" + hexver + ";" + p);
  return out;
}

// lk: 0 pessimistic, 1 optimistic, 2 mcs
inline Strs
Family(const std::string &f, int lk)
{
  const Strs base = {"S", "SIX", "X", "U", "D"};
  const Strs plain = {"S", "SIX", "X"};
  const Strs conv = {"U", "D", "DU", "UD"};
  Strs out;
  auto add = [&](const Strs &v) { out.insert(out.end(), v.begin(), v.end()); };
  if (f == "p1") {
    add(Programs({"S", "SIX", "X", "U", "D", "DU", "UD"}, 1, 2));
  } else if (f == "p2x1") {
    add(Programs(base, 2, 1));
  } else if (f == "p2x2") {
    add(Programs(base, 2, 2));
  } else if (f == "p3x1") {
    add(Programs(base, 3, 1));
  } else if (f == "p2x3") {
    add(Programs(plain, 2, 3));
  } else if (f == "p3x2") {
    add(Programs(plain, 3, 2));
  } else if (f == "p3x2c") {  // one converting thread with 2 sections, two plain threads with <=2
    add(Cross({"U", "D"}, plain, 2, 2));
  } else if (f == "rrw") {  // two single-section threads and one thread with two sections (small selection)
    for (auto &x : {"S | S", "S | SIX", "S | X", "SIX | X"})
      for (auto &y : {"X X", "X D", "U X", "X S", "D X"}) {
        std::string a = x;
        std::string t0 = a.substr(0, a.find(" | ")), t1 = a.substr(a.find(" | ") + 3);
        std::string b = y;
        std::string s0 = b.substr(0, b.find(' ')), s1 = b.substr(b.find(' ') + 1);
        out.push_back(Sec(t0) + " | " + Sec(t1) + " | " + Sec(s0) + " " + Sec(s1));
      }
  } else if (f == "p3x2w") {  // two single-section threads + one thread with two sections
    Strs two;
    for (auto &x : base)
      for (auto &y : base) two.push_back(Sec(x) + " " + Sec(y));
    Strs singles, cur;
    Multisets(Scripts(plain, 1), 2, 0, cur, singles);
    for (auto &sg : singles)
      for (auto &t : two) out.push_back(sg + " | " + t);
  } else if (f == "fifo4") {  // a holder, a waiting X/SIX, a shared request behind it, and a later X/SIX moving the tail
    for (auto &pr : {"S | X | S | X", "S | X | S | SIX", "S | SIX | S | X", "X | X | S | X", "SIX | X | S | X", "S | X | SIX | X"}) {
      std::string t = pr, acc;
      size_t pos = 0;
      Strs th;
      while ((pos = t.find(" | ")) != std::string::npos) {
        th.push_back(Sec(t.substr(0, pos)));
        t = t.substr(pos + 3);
      }
      th.push_back(Sec(t));
      out.push_back(Join(th));
    }
  } else if (f == "p4s") {  // four single-section threads over {S, SIX, X}: every multiset (the scheduler supplies the arrival orders)
    add(Programs(plain, 4, 1));
  } else if (f == "p4x1") {
    add(Programs(base, 4, 1));
  } else if (f == "conv2") {
    add(Cross(conv, {"S", "SIX", "X", "U", "D", "DU", "UD"}, 1));
  } else if (f == "conv3") {
    add(Cross(conv, plain, 2));
    add(Cross({"U", "D"}, {"S", "SIX", "X", "U", "D"}, 2));
  } else if (f == "warm2") {  // threads first run a section on the other lock (warm node caches)
    add(WithPrefix(Programs(base, 2, 1), "LX1b DXb"));
    add(WithPrefix(Programs(plain, 3, 1), "LS1b DSb"));
  } else if (f == "twolocks") {
    // sections on both locks, opposite order of use (no nesting: never two locks held at once)
    const Strs a0 = {Sec("X", '0') + " " + Sec("S", '1'), Sec("S", '0') + " " + Sec("X", '1'),
                     Sec("U", '0') + " " + Sec("X", '1'), Sec("SIX", '0') + " " + Sec("D", '1')};
    const Strs a1 = {Sec("X", '1') + " " + Sec("S", '0'), Sec("S", '1') + " " + Sec("X", '0'),
                     Sec("D", '1') + " " + Sec("SIX", '0'), Sec("X", '1') + " " + Sec("U", '0')};
    for (auto &x : a0)
      for (auto &y : a1) out.push_back(x + " | " + y);
  } else if (f == "guards1") {  // sequential guard algebra (one thread)
    for (const char *s : {"Xm", "Sm", "6m", "Xa", "Sa", "6a", "Xo", "So", "6o", "e", "eU", "eD", "Um", "Dm", "SS", "S6", "DU", "UD", "Ss", "Sd", "Xp", "Xn", "Sn", "6n", "Xb", "Sb", "6b"}) {
      out.push_back(Sec(s));
    }
    // two sections in a row (state left by the first is the start of the second)
    const Strs g = {"Xm", "Xa", "Xo", "Um", "Dm", "eU", "eD", "So", "6o"};
    for (auto &x : g)
      for (auto &y : g) out.push_back(Sec(x) + " " + Sec(y));
  } else if (f == "guards2") {  // guard algebra against one contender
    const Strs g = {"Xm", "Sm", "6m", "Xa", "Sa", "6a", "Xo", "So", "6o", "Um", "Dm", "eU", "eD", "SS", "S6", "Ss", "Sd", "Xp", "Xn", "Sn", "6n", "Xb", "Sb", "6b"};
    for (auto &x : g)
      for (auto &y : {"S", "SIX", "X", "U"}) out.push_back(Sec(x) + " | " + Sec(y));
    for (auto &x : {"Xo", "So", "6o"}) out.push_back(Sec(x) + " | " + Sec("X", '1'));
  } else if (f == "guards3") {
    const Strs g = {"Xm", "Xa", "Xo", "Um", "Dm", "So"};
    for (auto &x : g) add(Cross({x}, plain, 2));
  }
  if (lk == 1) {
    const Strs readers = {"O", "OS", "O6", "OX", "P"};
    const Strs writers = {"X", "Xvp", "U", "D"};
    if (f == "opt1") {
      for (const char *s : {"O", "OO", "OS", "O6", "OX", "OXg", "OU", "P", "Pm", "Pa", "PP", "Pn", "Pc", "Xg", "Xvp", "Xv0", "Xvm", "Xvs", "Xvq", "Dvp", "Dvs", "Ug", "Xmv", "Xav", "Xov"}) {
        out.push_back(Sec(s));
        out.push_back("v=ffffffff;" + Sec(s));
      }
      const Strs g = {"X", "Xvp", "Xvm", "Xv0", "D", "Dvp", "U", "O", "OX", "P", "Xav", "Xov"};
      for (auto &x : g)
        for (auto &y : g) {
          out.push_back(Sec(x) + " " + Sec(y));
          out.push_back("v=fffffffe;" + Sec(x) + " " + Sec(y));
        }
    } else if (f == "opt2") {
      for (auto &r : {"O", "OO", "OS", "O6", "OX", "OU", "P"})
        for (auto &w : {"X", "Xvp", "U", "D", "S", "SIX", "OX", "P"}) out.push_back(Sec(r) + " | " + Sec(w));
      add(WithVersion(Cross(readers, writers, 1), "ffffffff"));
      // a section whose exclusive grant ends by move assignment of another lock's guard, after a plain section
      for (auto &r : {"O", "OO", "OX", "OS", "P"}) {
        out.push_back(Sec(r) + " | " + Sec("X") + " " + Sec("Xp"));
        out.push_back(Sec(r) + " | " + Sec("Xp") + " " + Sec("Xp"));
      }
    } else if (f == "opt2x2") {
      for (auto &r : {"O", "OS", "OX", "P"})
        for (auto &w1 : {"X", "U", "D", "S"})
          for (auto &w2 : {"X", "D", "SIX"}) out.push_back(Sec(r) + " | " + Sec(w1) + " " + Sec(w2));
      for (auto &r : {"O", "OX", "P"})
        for (auto &w : {"X", "D", "U"}) out.push_back(Sec(r) + " " + Sec(r) + " | " + Sec(w));
    } else if (f == "opt3") {
      add(Cross(readers, {"X", "U", "D", "S", "SIX"}, 2));
      add(Cross({"O", "OX", "P"}, {"O", "OX", "P", "X"}, 2));
    } else if (f == "republish") {  // SetVersion republishing an earlier/same value: state-based half of C03 only
      for (auto &r : {"O", "OO", "OS", "O6", "OX", "P"})
        for (auto &w : {"Xvs", "Xvq", "Dvs", "Xv0", "Xvm"}) {
          out.push_back(Sec(r) + " | " + Sec(w));
          out.push_back(Sec(r) + " | " + Sec(w) + " " + Sec("X"));
        }
      for (auto &r : {"O", "OX", "P"}) out.push_back("v=1;" + std::string(Sec(r)) + " | " + Sec("Xvq") + " " + Sec("Xvp"));
    } else if (f == "ver2") {  // C09: version bookkeeping under contention
      const Strs vs_ = {"Xg", "Xvp", "Xvm", "Xv0", "Dvp", "Ug", "Xmv", "Xav", "OXg", "D", "DU", "UD"};
      for (auto &x : vs_)
        for (auto &y : {"Xg", "Xvp", "S", "SIX", "O", "OS", "Ug", "Dvp", "P"}) {
          out.push_back(Sec(x) + " | " + Sec(y));
        }
      for (auto &x : {"Xg", "Xvp", "Ug", "Dvp", "DU"})
        for (auto &y : {"Xg", "Ug", "O", "S", "P"}) {
          out.push_back("v=ffffffff;" + std::string(Sec(x)) + " | " + Sec(y));
          out.push_back("v=fffffffe;" + std::string(Sec(x)) + " " + Sec("Xg") + " | " + Sec(y));
        }
    } else if (f == "ver3") {
      add(Cross({"Xg", "Xvp", "Ug", "Dvp"}, {"Xg", "S", "O", "U", "D"}, 2));
    } else if (f == "prep2") {  // C13
      for (auto &p : {"P", "Pm", "Pa", "Pb", "PP", "Pn", "Pc"})
        for (auto &w : {"X", "Xvp", "U", "D", "S", "SIX", "P", "OX", "DU"}) out.push_back(Sec(p) + " | " + Sec(w));
      for (auto &p : {"P", "PP"})
        for (auto &w1 : {"X", "D", "U"})
          for (auto &w2 : {"S", "SIX", "OS"}) out.push_back(Sec(p) + " | " + Sec(w1) + " " + Sec(w2));
      for (auto &p : {"P", "Pm"})
        for (auto &w : {"X", "D", "U"}) {
          out.push_back(Sec(p) + " | " + Sec(w) + " " + Sec(w));
          out.push_back("v=ffffffff;" + std::string(Sec(p)) + " | " + Sec(w));
        }
    } else if (f == "prep3") {
      add(Cross({"P", "Pm"}, {"X", "S", "SIX", "P", "U", "D"}, 2));
    } else if (f == "prep4") {
      for (auto &w1 : {"X", "S", "D"})
        for (auto &w2 : {"X", "SIX", "U"}) out.push_back(Sec("P") + " | " + Sec("P") + " | " + Sec(w1) + " | " + Sec(w2));
    }
  }
  return out;
}

}  // namespace lockprog
