// selftest.cpp — the explorer checked against tiny programs whose complete behaviour is known.
// Run by ./check --setup. Each scenario is explored at several bounds; the set of outcomes / violations the engine
// reports must equal the set computed by an independent brute-force enumeration written here (S1, S5) or the
// known answer (S2-S4). A scheduler, cache or bounding bug that makes the search skip interleavings — or invent
// some — shows up as a mismatch, exit code 1.
#include "vshim_off.hpp"
// ---- plain C++ ----
#include <algorithm>
#include <cstdio>
#include <cstring>
#include <functional>
#include <set>
#include <sstream>
#include <string>
#include <vector>

#include "vs_engine.hpp"

namespace
{
using A64 = vshim::Atomic<uint64_t>;
constexpr auto kRlx = std::memory_order_relaxed;
constexpr auto kAcq = std::memory_order_acquire;
constexpr auto kRel = std::memory_order_release;
constexpr auto kSc = std::memory_order_seq_cst;

struct World {
  A64 x{0}, y{0}, a{0}, b{0}, flag{0};
  vshim::Atomic<A64 *> slot{nullptr};
  long plain = 0;
  char res[4][48];
  bool hb_seen = false;
} *W;

std::string g_mode;

void
Setup()
{
  W = new World{};
  for (auto &r : W->res) r[0] = 0;
  if (g_mode == "uaf") W->slot.RawStore(new A64{7});
}

void
Teardown()
{
  delete W;
  W = nullptr;
}

void
SpinLock(A64 &f)
{
  while (f.exchange(1, kAcq) != 0) vshim::Pause();
}

void
Body(int tid)
{
  vs::SetCall(tid == 0 ? "T0" : "T1");
  vs::Boundary(static_cast<uint64_t>(tid));
  if (g_mode == "lost") {  // S1: load; store(v+1) twice over
    const uint64_t v = W->x.load(kSc);
    W->x.store(v + 1, kSc);
  } else if (g_mode == "abba") {  // S2: opposite lock order
    A64 &first = tid == 0 ? W->a : W->b;
    A64 &second = tid == 0 ? W->b : W->a;
    SpinLock(first);
    SpinLock(second);
    second.store(0, kRel);
    first.store(0, kRel);
  } else if (g_mode == "uaf") {  // S3: reader dereferences a node the other thread unlinks and frees
    if (tid == 0) {
      A64 *p = W->slot.load(kAcq);
      if (p != nullptr) (void)p->load(kRlx);
    } else {
      A64 *p = W->slot.exchange(nullptr, kSc);
      delete p;
    }
  } else if (g_mode == "hb-rel" || g_mode == "hb-rlx") {  // S4: message passing, declared orders
    if (tid == 0) {
      vs::HbMark(0, 3);  // the event "T0 finished its section"
      W->flag.store(1, g_mode == "hb-rel" ? kRel : kRlx);
    } else {
      while (W->flag.load(kAcq) == 0) vshim::Pause();
      vs::NoSchedule ns;
      W->hb_seen = ((vs::HbKnown(1) >> 3) & 1ULL) != 0;
      snprintf(W->res[1], sizeof W->res[1], "hb=%d", W->hb_seen ? 1 : 0);
    }
  } else if (g_mode == "hang") {  // S6: a loop in plain code that never reaches a scheduling point
    if (tid == 0) {
      (void)W->x.load(kSc);
      volatile long *p = &W->plain;
      while (*p == 0) {
      }
    } else {
      W->y.store(1, kSc);
    }
  } else if (g_mode == "seq3") {  // S5: writer 1,2,3 / reader three loads
    if (tid == 0) {
      for (uint64_t v = 1; v <= 3; ++v) W->x.store(v, kSc);
    } else {
      uint64_t r[3];
      uint64_t h = 99;
      for (auto &v : r) {
        v = W->x.load(kSc);
        // three equal observations at one call site are *not* a wait loop here: an API boundary per load (as
        // the harness interpreters have between operations) resets the spin rule of DESIGN 2.2
        h = vs::Mix(h, v);
        vs::Boundary(h);
      }
      vs::NoSchedule ns;
      snprintf(W->res[1], sizeof W->res[1], "%d%d%d", static_cast<int>(r[0]), static_cast<int>(r[1]), static_cast<int>(r[2]));
    }
  }
}

std::string
Outcome()
{
  if (g_mode == "lost") return std::to_string(W->x.Raw());
  return std::string(W->res[0]) + W->res[1];
}

uint64_t
Digest()
{
  uint64_t h = 1;
  for (auto &r : W->res)
    for (const char *c = r; *c; ++c) h = vs::Mix(h, static_cast<uint64_t>(*c));
  return h;
}

std::string
RunOne(const std::string &mode, int bound)
{
  g_mode = mode;
  vs::Scenario s;
  s.nthreads = 2;
  s.setup = Setup;
  s.body = Body;
  s.teardown = Teardown;
  s.outcome = Outcome;
  s.digest = Digest;
  s.deadlock_props = "SELF";
  s.uaf_props = [](const void *, const vs::BlockInfo &) { return "SELF"; };
  vs::Config cfg;
  cfg.bound = bound;
  cfg.iterate = true;
  cfg.budget_s = 60;
  cfg.hang_cpu_s = 2;
  auto r = vs::Explore(s, cfg);
  std::set<std::string> outs(r.outcomes.begin(), r.outcomes.end());
  std::set<std::string> sigs;
  for (auto &v : r.violations) sigs.insert(v.sig.substr(0, v.sig.find(':')));
  std::string o = "exh=" + std::to_string(r.exhaustive ? 1 : 0) + " out=";
  for (auto &x : outs) o += x + ",";
  o += " viol=";
  for (auto &x : sigs) o += x + ",";
  return o;
}

// independent enumeration of S5: all interleavings of W W W / R R R with at most `bound` preemptions
// (a switch away from a thread that still has an operation left costs one)
std::set<std::string>
BruteSeq3(int bound)
{
  std::set<std::string> outs;
  std::function<void(int, int, int, int, uint64_t, std::string)> rec = [&](int w, int r, int cur, int cost, uint64_t x, std::string seen) {
    if (w == 3 && r == 3) {
      outs.insert(seen);
      return;
    }
    for (int t = 0; t < 2; ++t) {
      if ((t == 0 && w == 3) || (t == 1 && r == 3)) continue;
      int c = cost;
      if (cur >= 0 && t != cur) {
        const bool cur_left = cur == 0 ? w < 3 : r < 3;
        if (cur_left) ++c;
      }
      if (bound >= 0 && c > bound) continue;
      if (t == 0) rec(w + 1, r, 0, c, static_cast<uint64_t>(w + 1), seen);
      else rec(w, r + 1, 1, c, x, seen + std::to_string(x));
    }
  };
  rec(0, 0, -1, 0, 0, "");
  return outs;
}

std::string
Join(const std::set<std::string> &s)
{
  std::string o;
  for (auto &x : s) o += x + ",";
  return o;
}

}  // namespace

int
main()
{
  struct Case {
    std::string mode;
    int bound;
    std::string expect;  // exact expected string
  };
  std::vector<Case> cases = {
      {"lost", 0, "exh=1 out=2, viol="},
      {"lost", 1, "exh=1 out=1,2, viol="},
      {"lost", -1, "exh=1 out=1,2, viol="},
      {"abba", 0, "exh=1 out=, viol="},
      {"abba", 1, "exh=1 out=, viol=DEADLOCK,"},
      {"abba", -1, "exh=1 out=, viol=DEADLOCK,"},
      {"uaf", 0, "exh=1 out=, viol="},
      {"uaf", 1, "exh=1 out=, viol=UAF,"},
      {"uaf", -1, "exh=1 out=, viol=UAF,"},
      {"hb-rel", -1, "exh=1 out=hb=1, viol="},
      {"hb-rlx", -1, "exh=1 out=hb=0, viol="},
      {"hang", 0, "exh=0 out= viol=HANG,"},
  };
  for (int b : {0, 1, 2, 3, 4, 5, -1}) cases.push_back({"seq3", b, "exh=1 out=" + Join(BruteSeq3(b)) + " viol="});
  std::vector<vs::Job> jobs;
  for (auto &c : cases) jobs.push_back(vs::Job{c.mode, std::to_string(c.bound)});
  auto results = vs::RunJobs(jobs, 8, 120, 300, [&](const vs::Job &j) { return RunOne(j.name, atoi(j.param.c_str())); });
  int bad = 0;
  for (size_t i = 0; i < cases.size(); ++i) {
    const bool ok = results[i].json == cases[i].expect;
    printf("%s selftest %-7s bound %2d: %s%s%s\n", ok ? "ok  " : "FAIL", cases[i].mode.c_str(), cases[i].bound, results[i].json.c_str(),
           ok ? "" : "   expected: ", ok ? "" : cases[i].expect.c_str());
    bad += ok ? 0 : 1;
  }
  printf("selftest: %zu cases, %d mismatches\n", cases.size(), bad);
  return bad == 0 ? 0 : 1;
}
