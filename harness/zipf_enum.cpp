// zipf_enum.cpp — exhaustive enumeration harness for ZipfDistribution / ApproxZipfDistribution
// (C06: inverse-CDF sampling and range, C18: CDF values, C19: purity).
//
// C06: for one configuration (type, class, min, max, alpha) the result of operator() depends on the
// engine only through the order of the uniform variate u relative to the CDF entries. The 2^64 engine
// outputs therefore fall into finitely many classes (each distinct CDF value exactly, each open
// interval between neighbours); every class is visited through an engine that returns a chosen
// value: for every breakpoint the engine outputs x-2..x+2 around the first output whose variate
// reaches it, plus the extremes 0 and 2^64-1.
#include "dbgroup/random/zipf.hpp"
#include "vshim_off.hpp"
// ---- plain C++ ----
#include <sys/resource.h>
#include <sys/wait.h>
#include <unistd.h>

#include <cfloat>
#include <cinttypes>
#include <cmath>
#include <cstdarg>
#include <cstring>
#include <random>
#include <set>
#include <sstream>

#include "vs_engine.hpp"

using dbgroup::random::ApproxZipfDistribution;
using dbgroup::random::ZipfDistribution;

namespace
{
std::string
Fmt(const char *f, ...)
{
  char buf[640];
  va_list ap;
  va_start(ap, f);
  vsnprintf(buf, sizeof buf, f, ap);
  va_end(ap);
  return buf;
}

// engine returning a fixed sequence of chosen 64-bit values
struct FixedEngine {
  using result_type = uint64_t;
  uint64_t v[4] = {0, 0, 0, 0};
  int i = 0;
  static constexpr result_type min() { return 0; }
  static constexpr result_type max() { return ~0ULL; }
  result_type operator()() { return v[(i++) & 3]; }
};

double
VariateOf(uint64_t x)
{
  FixedEngine e;
  e.v[0] = e.v[1] = e.v[2] = e.v[3] = x;
  std::uniform_real_distribution<double> d{0.0, 1.0};
  return d(e);
}

// smallest engine output whose variate is >= c (c in (0,1]); returns false if none
bool
FirstReaching(double c, uint64_t &x)
{
  if (VariateOf(~0ULL) < c) return false;
  uint64_t lo = 0, hi = ~0ULL;
  while (lo < hi) {
    uint64_t mid = lo + (hi - lo) / 2;
    if (VariateOf(mid) >= c) {
      hi = mid;
    } else {
      lo = mid + 1;
    }
  }
  x = lo;
  return true;
}

struct Finding {
  std::string prop, sig, msg, input;
};

struct Stats {
  uint64_t evaluations = 0;
  uint64_t classes = 0;
  uint64_t configs = 0;
  double max_cdf_err = 0;      // C18 exact: max |cdf - ref|
  double max_mono_drop = 0;    // C18: largest decrease between neighbours
  double max_approx_err = 0;   // C18 approx (n >= 1000, alpha <= 3)
  std::vector<Finding> findings;
  std::set<std::string> sigs;
  void
  Add(const char *prop, const std::string &sig, const std::string &msg, const std::string &input)
  {
    if (!sigs.insert(std::string(prop) + sig).second) return;
    if (findings.size() < 24) findings.push_back(Finding{prop, sig, msg, input});
  }
};

template <class T>
const char *
TypeName()
{
  if (std::is_same_v<T, uint32_t>) return "u32";
  if (std::is_same_v<T, uint64_t>) return "u64";
  if (std::is_same_v<T, int32_t>) return "i32";
  return "i64";
}

std::string
HexD(double d)
{
  char b[64];
  snprintf(b, sizeof b, "%a", d);
  return b;
}

template <class Dist>
constexpr bool kIsApprox = false;
template <class T>
constexpr bool kIsApprox<ApproxZipfDistribution<T>> = true;

/*----------------------------------------------------------------------------------------------
 * C06
 *--------------------------------------------------------------------------------------------*/
template <class T, class Dist>
void
CheckDraw(const Dist &dist, T mn, T mx, double alpha, uint64_t x, Stats &st, const char *sigclass)
{
  FixedEngine e;
  e.v[0] = e.v[1] = e.v[2] = e.v[3] = x;
  const T v = dist(e);
  const double u = VariateOf(x);
  ++st.evaluations;
  const std::string input = Fmt("C06;%s;%s;%" PRId64 ";%" PRId64 ";%s;%" PRIu64, TypeName<T>(), kIsApprox<Dist> ? "approx" : "exact",
                                static_cast<int64_t>(mn), static_cast<int64_t>(mx), HexD(alpha).c_str(), x);
  if (v < mn || v > mx) {
    st.Add("C06", Fmt("OUT-OF-RANGE:%s:%s", kIsApprox<Dist> ? "approx" : "exact", sigclass),
           Fmt("%s<%s>(min=%" PRId64 ", max=%" PRId64 ", alpha=%.17g) returned %" PRId64 " for engine output %" PRIu64 " (u=%.17g)",
               kIsApprox<Dist> ? "ApproxZipfDistribution" : "ZipfDistribution", TypeName<T>(), static_cast<int64_t>(mn), static_cast<int64_t>(mx),
               alpha, static_cast<int64_t>(v), x, u),
           input);
    return;
  }
  const uint64_t k = static_cast<uint64_t>(v) - static_cast<uint64_t>(mn);
  const double hi = dist.GetCDF(static_cast<T>(k));
  const double lo = k == 0 ? -1.0 : dist.GetCDF(static_cast<T>(k - 1));
  if (!(u <= hi) || !(k == 0 || lo <= u)) {
    st.Add("C06", Fmt("NOT-INVERSE-CDF:%s:%s", kIsApprox<Dist> ? "approx" : "exact", sigclass),
           Fmt("%s<%s>(min=%" PRId64 ", max=%" PRId64 ", alpha=%.17g): engine output %" PRIu64 " gives u=%.17g but the result %" PRId64
               " is bin %" PRIu64 " with CDF bracket [%.17g, %.17g]",
               kIsApprox<Dist> ? "ApproxZipfDistribution" : "ZipfDistribution", TypeName<T>(), static_cast<int64_t>(mn), static_cast<int64_t>(mx),
               alpha, x, u, static_cast<int64_t>(v), k, lo, hi),
           input);
  }
}

template <class T, class Dist>
void
EnumerateConfig(T mn, uint64_t n, double alpha, Stats &st, uint64_t stride)
{
  const T mx = static_cast<T>(static_cast<uint64_t>(mn) + (n - 1));
  Dist dist{mn, mx, alpha};
  ++st.configs;
  const char *sigclass = n <= 100 ? "n<=100" : "n>100";
  CheckDraw<T>(dist, mn, mx, alpha, 0, st, sigclass);
  CheckDraw<T>(dist, mn, mx, alpha, ~0ULL, st, sigclass);
  CheckDraw<T>(dist, mn, mx, alpha, 1ULL << 63, st, sigclass);
  double prev = -1;
  for (uint64_t k = 0; k < n; k += (k < 260 || k + 260 >= n) ? 1 : stride) {
    const double c = dist.GetCDF(static_cast<T>(k));
    if (c != prev) ++st.classes;  // the exact value and the open interval below it
    prev = c;
    uint64_t x = 0;
    if (!(c > 0) || !FirstReaching(c, x)) {
      continue;  // c > every variate (e.g. 1.0): the interval below is covered by the neighbours / extremes
    }
    for (int d = -2; d <= 2; ++d) {
      const uint64_t y = x + static_cast<uint64_t>(static_cast<int64_t>(d));
      if ((d < 0 && y > x) || (d > 0 && y < x)) continue;
      CheckDraw<T>(dist, mn, mx, alpha, y, st, sigclass);
    }
  }
}

// the boundary between the tabulated (first 100 bins) and the closed-form part of the approximate
// class: dense skew grid, breakpoints around bins 98..101 and the last two bins
template <class T>
void
EnumerateJunction(uint64_t n, double alpha, Stats &st)
{
  const T mn = static_cast<T>(3);
  const T mx = static_cast<T>(static_cast<uint64_t>(mn) + (n - 1));
  ApproxZipfDistribution<T> dist{mn, mx, alpha};
  ++st.configs;
  CheckDraw<T>(dist, mn, mx, alpha, ~0ULL, st, "junction");
  double prev = -1;
  for (uint64_t k : std::initializer_list<uint64_t>{97, 98, 99, 100, 101, n - 2, n - 1}) {
    if (k >= n) continue;
    const double c = dist.GetCDF(static_cast<T>(k));
    if (c != prev) ++st.classes;
    prev = c;
    uint64_t x = 0;
    if (!(c > 0) || !FirstReaching(c, x)) x = ~0ULL;
    for (int d = -2; d <= 2; ++d) {
      const uint64_t y = x + static_cast<uint64_t>(static_cast<int64_t>(d));
      if ((d < 0 && y > x) || (d > 0 && y < x)) continue;
      CheckDraw<T>(dist, mn, mx, alpha, y, st, "junction");
    }
  }
}

// Wide 32-bit ranges of the approximate class (C06, and "exactly 1 at the last bin" / monotone of C18): bin counts next
// to 2^30, 2^31 and 2^32, where positions, `n + 1` and `max - min + 1` approach the limits of IntType and of the
// 64-bit search positions. (The exact class cannot be built at these sizes: its table has n entries.) The bin count
// itself must be representable in IntType, i.e. the full range of the type is not in the grid. Each configuration runs
// in a child process with a CPU-time limit: a search or a construction that does not terminate is a violation with
// a replayable input, not a time-out of the harness.
template <class T>
void
EnumerateWideBody(T mn, uint64_t n, double alpha, Stats &st)
{
  const T mx = static_cast<T>(static_cast<uint64_t>(mn) + (n - 1));
  ApproxZipfDistribution<T> dist{mn, mx, alpha};
  ++st.configs;
  for (uint64_t x : {0ULL, 1ULL << 62, 1ULL << 63, 3ULL << 62, 0xF000000000000000ULL, 0xFFFFFFFFFFFFF000ULL, ~0ULL}) CheckDraw<T>(dist, mn, mx, alpha, x, st, "wide");
  double prev = -1;
  uint64_t prev_k = 0;
  const std::string cfg = Fmt("C06;%s;approx;%" PRId64 ";%" PRId64 ";%s;0", TypeName<T>(), static_cast<int64_t>(mn), static_cast<int64_t>(mx), HexD(alpha).c_str());
  for (uint64_t k : std::initializer_list<uint64_t>{0, 1, 97, 98, 99, 100, 101, 1000, n / 4, n / 2 - 1, n / 2, n / 2 + 1, n / 4 * 3, n - 1000, n - 3, n - 2, n - 1}) {
    if (k >= n || (prev >= 0 && k <= prev_k)) continue;
    const double c = dist.GetCDF(static_cast<T>(k));
    if (!(c >= 0.0) || !(c <= 1.0) || (prev >= 0 && c < prev)) {
      st.Add("C06,C18", "CDF-NOT-A-CDF:approx:wide",
             Fmt("ApproxZipfDistribution<%s>(min=%" PRId64 ", max=%" PRId64 ", alpha=%.17g): GetCDF(%" PRIu64 ") = %.17g after GetCDF(%" PRIu64 ") = %.17g (%" PRIu64 " bins)",
                 TypeName<T>(), static_cast<int64_t>(mn), static_cast<int64_t>(mx), alpha, k, c, prev_k, prev, n),
             cfg);
    }
    if (k == n - 1 && c != 1.0) {
      st.Add("C18", "LAST-BIN-NOT-ONE:approx:wide",
             Fmt("ApproxZipfDistribution<%s>(min=%" PRId64 ", max=%" PRId64 ", alpha=%.17g): GetCDF(last bin %" PRIu64 ") = %.17g, not 1", TypeName<T>(),
                 static_cast<int64_t>(mn), static_cast<int64_t>(mx), alpha, k, c),
             cfg);
    }
    if (c != prev) ++st.classes;
    prev = c;
    prev_k = k;
    uint64_t x = 0;
    if (!(c > 0) || !FirstReaching(c, x)) x = ~0ULL;
    for (int d = -2; d <= 2; ++d) {
      const uint64_t y = x + static_cast<uint64_t>(static_cast<int64_t>(d));
      if ((d < 0 && y > x) || (d > 0 && y < x)) continue;
      CheckDraw<T>(dist, mn, mx, alpha, y, st, "wide");
    }
  }
}

template <class T>
void
EnumerateWide(T mn, uint64_t n, double alpha, Stats &st)
{
  const T mx = static_cast<T>(static_cast<uint64_t>(mn) + (n - 1));
  const std::string cfg = Fmt("C06;%s;wide;%" PRId64 ";%" PRId64 ";%s;0", TypeName<T>(), static_cast<int64_t>(mn), static_cast<int64_t>(mx), HexD(alpha).c_str());
  int fd[2];
  if (pipe(fd) != 0) return;
  fflush(nullptr);
  const pid_t pid = fork();
  if (pid == 0) {
    close(fd[0]);
    struct rlimit rl {30, 31};  // construction of 4e9 bins takes about 2 s
    setrlimit(RLIMIT_CPU, &rl);
    Stats child;
    try {
      EnumerateWideBody<T>(mn, n, alpha, child);
    } catch (const std::exception &e) {
      child.Add("C06", "EXCEPTION:approx:wide",
                Fmt("ApproxZipfDistribution<%s>(min=%" PRId64 ", max=%" PRId64 ", alpha=%.17g) threw %s while sampling or reading its CDF", TypeName<T>(),
                    static_cast<int64_t>(mn), static_cast<int64_t>(mx), alpha, e.what()),
                cfg);
    }
    std::string o = Fmt("%" PRIu64 "\x01%" PRIu64 "\x01%" PRIu64 "\n", child.evaluations, child.classes, child.configs);
    for (auto &f : child.findings) o += f.prop + "\x01" + f.sig + "\x01" + f.msg + "\x01" + f.input + "\n";
    size_t off = 0;
    while (off < o.size()) {
      const ssize_t w = write(fd[1], o.data() + off, o.size() - off);
      if (w <= 0) break;
      off += static_cast<size_t>(w);
    }
    _exit(0);
  }
  close(fd[1]);
  std::string in;
  char buf[4096];
  for (;;) {
    const ssize_t r = read(fd[0], buf, sizeof buf);
    if (r > 0) {
      in.append(buf, static_cast<size_t>(r));
    } else if (r < 0 && errno == EINTR) {
      continue;
    } else {
      break;
    }
  }
  close(fd[0]);
  int status = 0;
  waitpid(pid, &status, 0);
  if (!WIFEXITED(status) || WEXITSTATUS(status) != 0 || in.empty()) {
    ++st.configs;
    st.Add("C06", "NO-RESULT:approx:wide",
           Fmt("ApproxZipfDistribution<%s>(min=%" PRId64 ", max=%" PRId64 ", alpha=%.17g) with %" PRIu64 " bins: construction or sampling %s", TypeName<T>(), static_cast<int64_t>(mn),
               static_cast<int64_t>(mx), alpha, n, WIFSIGNALED(status) && WTERMSIG(status) == SIGXCPU ? "did not terminate within 30 s of CPU time" : "ended abnormally"),
           cfg);
    return;
  }
  std::stringstream ss(in);
  std::string line;
  bool first = true;
  while (std::getline(ss, line)) {
    if (first) {
      unsigned long long a = 0, b = 0, c = 0;
      sscanf(line.c_str(), "%llu\x01%llu\x01%llu", &a, &b, &c);
      st.evaluations += a;
      st.classes += b;
      st.configs += c;
      first = false;
      continue;
    }
    std::vector<std::string> f;
    std::stringstream ls(line);
    std::string x;
    while (std::getline(ls, x, '\x01')) f.push_back(x);
    if (f.size() >= 4) st.Add(f[0].c_str(), f[1], f[2], f[3]);
  }
}

struct WideCfg {
  uint64_t n;
  int min_kind;  // 0: smallest admissible minimum (0 / type minimum), 1: largest (max = type maximum)
};

template <class T>
void
RunWide(int part, bool thorough, Stats &st)
{
  std::vector<uint64_t> ns;
  if constexpr (std::is_same_v<T, uint32_t>) {
    ns = thorough ? std::vector<uint64_t>{(1ULL << 31) - 1, 1ULL << 31, (1ULL << 31) + 1, 3000000000ULL, (1ULL << 32) - 2, (1ULL << 32) - 1}
                  : std::vector<uint64_t>{(1ULL << 31) + 1, (1ULL << 32) - 1};
  } else {
    ns = thorough ? std::vector<uint64_t>{1ULL << 30, (1ULL << 30) + 1, 2000000001ULL, (1ULL << 31) - 2, (1ULL << 31) - 1}
                  : std::vector<uint64_t>{(1ULL << 30) + 1, (1ULL << 31) - 1};
  }
  const std::vector<double> alphas = thorough ? std::vector<double>{0.0, 0.5, 1.0, 1.5, 3.0} : std::vector<double>{0.5, 1.0};
  int idx = 0;
  for (uint64_t n : ns)
    for (int mk = 0; mk < 2; ++mk)
      for (double a : alphas) {
        if (idx++ % 8 != part) continue;  // eight jobs per type
        const T mn = mk == 0 ? std::numeric_limits<T>::min() : static_cast<T>(static_cast<uint64_t>(std::numeric_limits<T>::max()) - (n - 1));
        if (mk == 1 && mn == std::numeric_limits<T>::min()) continue;
        EnumerateWide<T>(mn, n, a, st);
      }
}

template <class T>
std::vector<T>
MinsFor(uint64_t n)
{
  std::vector<T> m = {0, 1};
  if constexpr (std::is_signed_v<T>) {
    m.push_back(static_cast<T>(-3));
    m.push_back(std::numeric_limits<T>::min());
    m.push_back(static_cast<T>(-static_cast<int64_t>(n / 2)));
  }
  m.push_back(static_cast<T>(std::numeric_limits<T>::max() - static_cast<T>(n - 1)));
  return m;
}

const std::vector<double> &
Alphas06()
{
  static const std::vector<double> a = {0.0,  ldexp(1.0, -30), 0.25, 0.5,  0.75, 0.99, std::nextafter(1.0, 0.0), 1.0, std::nextafter(1.0, 2.0), 1.01, 1.25,
                                        1.5,  1.75, 1.88, 2.0,  2.25, 2.5,  2.75, 3.0,  3.5,  4.0,  4.5,  5.0,  6.0,  7.0,  8.0,  9.0,  10.0, 10.5,
                                        11.0, 12.0, 15.0, 20.0, 30.0, 50.0, 100.0, 700.0};
  return a;
}

template <class T>
void
RunC06(const std::vector<uint64_t> &ns, Stats &st, bool approx, uint64_t stride)
{
  for (uint64_t n : ns) {
    for (T mn : MinsFor<T>(n)) {
      for (double a : Alphas06()) {
        if (approx) {
          EnumerateConfig<T, ApproxZipfDistribution<T>>(mn, n, a, st, stride);
        } else {
          EnumerateConfig<T, ZipfDistribution<T>>(mn, n, a, st, stride);
        }
      }
    }
  }
}

template <class T>
void
DefaultCtor(Stats &st)
{
  ZipfDistribution<T> z{};
  ApproxZipfDistribution<T> az{};
  for (uint64_t x : {0ULL, 1ULL, 1ULL << 32, 1ULL << 63, ~0ULL, ~0ULL - 1, 0x123456789abcdefULL}) {
    FixedEngine e;
    e.v[0] = e.v[1] = e.v[2] = e.v[3] = x;
    FixedEngine e2 = e;
    ++st.evaluations;
    if (z(e) != 0 || az(e2) != 0) {
      st.Add("C06", "DEFAULT-NOT-ZERO", Fmt("default-constructed generator<%s> returned a non-zero value for engine output %" PRIu64, TypeName<T>(), x),
             Fmt("C06;%s;default;0;0;0x0p+0;%" PRIu64, TypeName<T>(), x));
    }
  }
  ++st.classes;
}

/*----------------------------------------------------------------------------------------------
 * C18
 *--------------------------------------------------------------------------------------------*/
// long double reference with Kahan summation
void
Reference(uint64_t n, double alpha, std::vector<long double> &cdf)
{
  cdf.resize(n);
  long double sum = 0, comp = 0;
  for (uint64_t i = 1; i <= n; ++i) {
    long double term = 1.0L / powl(static_cast<long double>(i), static_cast<long double>(alpha));
    long double y = term - comp;
    long double t = sum + y;
    comp = (t - sum) - y;
    sum = t;
    cdf[i - 1] = sum;
  }
  for (auto &c : cdf) c /= sum;
}

template <class T>
void
CheckC18(uint64_t n, double alpha, Stats &st, bool exact_class)
{
  const T mn = 0;
  const T mx = static_cast<T>(n - 1);
  std::vector<long double> ref;
  Reference(n, alpha, ref);
  ++st.configs;
  const double tol = 8.0 * static_cast<double>(n) * ldexp(1.0, -53);
  const std::string cfg = Fmt("%s;n=%" PRIu64 ";alpha=%s", TypeName<T>(), n, HexD(alpha).c_str());
  if (exact_class) {
    ZipfDistribution<T> z{mn, mx, alpha};
    double prev = 0;
    for (uint64_t k = 0; k < n; ++k) {
      const double c = z.GetCDF(static_cast<T>(k));
      ++st.evaluations;
      const double err = static_cast<double>(fabsl(static_cast<long double>(c) - ref[k]));
      st.max_cdf_err = std::max(st.max_cdf_err, err);
      if (!(err <= tol)) {
        st.Add("C18", "EXACT-CDF-VALUE", Fmt("ZipfDistribution<%s> n=%" PRIu64 " alpha=%.17g: GetCDF(%" PRIu64 ")=%.17g, reference %.17Lg", TypeName<T>(), n, alpha, k, c, ref[k]),
               "C18;exact;" + cfg + Fmt(";k=%" PRIu64, k));
      }
      if (c < prev) {
        st.max_mono_drop = std::max(st.max_mono_drop, prev - c);
        if (prev - c > tol) {
          st.Add("C18", "EXACT-CDF-DECREASES", Fmt("ZipfDistribution<%s> n=%" PRIu64 " alpha=%.17g: GetCDF(%" PRIu64 ")=%.17g < GetCDF(%" PRIu64 ")=%.17g", TypeName<T>(), n, alpha, k, c, k - 1, prev),
                 "C18;exact;" + cfg + Fmt(";k=%" PRIu64, k));
        }
      }
      prev = c;
    }
    if (z.GetCDF(static_cast<T>(n - 1)) != 1.0) {
      st.Add("C18", "EXACT-LAST-NOT-ONE", Fmt("ZipfDistribution<%s> n=%" PRIu64 " alpha=%.17g: last CDF entry is %.17g", TypeName<T>(), n, alpha, z.GetCDF(static_cast<T>(n - 1))), "C18;exact;" + cfg);
    }
    ++st.classes;
    return;
  }
  ApproxZipfDistribution<T> az{mn, mx, alpha};
  const double last = az.GetCDF(static_cast<T>(n - 1));
  ++st.classes;
  if (last != 1.0) {
    st.Add("C18", n <= 100 ? "APPROX-LAST-NOT-ONE:n<=100" : "APPROX-LAST-NOT-ONE:n>100",
           Fmt("ApproxZipfDistribution<%s> n=%" PRIu64 " alpha=%.17g: CDF of the last bin is %.17g", TypeName<T>(), n, alpha, last), "C18;approx;" + cfg);
  }
  for (uint64_t k = 0; k < n; ++k) {
    const double c = az.GetCDF(static_cast<T>(k));
    ++st.evaluations;
    const double err = static_cast<double>(fabsl(static_cast<long double>(c) - ref[k]));
    if (n <= 100) {
      if (!(err <= tol)) {
        st.Add("C18", "APPROX-SMALL-NOT-EXACT", Fmt("ApproxZipfDistribution<%s> n=%" PRIu64 " alpha=%.17g: GetCDF(%" PRIu64 ")=%.17g, exact %.17Lg", TypeName<T>(), n, alpha, k, c, ref[k]),
               "C18;approx;" + cfg + Fmt(";k=%" PRIu64, k));
      }
    } else if (n >= 1000 && alpha >= 0.0 && alpha <= 3.0) {
      st.max_approx_err = std::max(st.max_approx_err, err);
      if (!(err <= 0.01)) {
        st.Add("C18", "APPROX-FAR-FROM-EXACT", Fmt("ApproxZipfDistribution<%s> n=%" PRIu64 " alpha=%.17g: GetCDF(%" PRIu64 ")=%.17g but the exact CDF is %.17Lg (error %.3g > 0.01)", TypeName<T>(), n, alpha, k, c, ref[k], err),
               "C18;approx;" + cfg + Fmt(";k=%" PRIu64, k));
      }
    }
  }
}

/*----------------------------------------------------------------------------------------------
 * C19 (sequential part): purity
 *--------------------------------------------------------------------------------------------*/
template <class Dist>
uint64_t
StateHash(const Dist &d)
{
  uint64_t h = 1;
  const auto *p = reinterpret_cast<const unsigned char *>(&d);
  // object representation (includes the pointer to the table for the exact class)
  for (size_t i = 0; i + 8 <= sizeof(Dist); i += 8) {
    uint64_t v;
    memcpy(&v, p + i, 8);
    h = vs::Mix(h, v);
  }
  return h;
}

template <class T, class Dist>
void
CheckPurity(T mn, uint64_t n, double alpha, Stats &st)
{
  const T mx = static_cast<T>(static_cast<uint64_t>(mn) + (n - 1));
  ++st.configs;
  const std::string cfg = Fmt("C19;%s;%s;%" PRId64 ";%" PRIu64 ";%s", TypeName<T>(), kIsApprox<Dist> ? "approx" : "exact", static_cast<int64_t>(mn), n, HexD(alpha).c_str());
  Dist orig{mn, mx, alpha};
  Dist twin{mn, mx, alpha};
  Dist copy{orig};
  Dist tmp{orig};
  const uint64_t h0 = StateHash(orig);  // before the very first call of any member
  std::vector<double> table_before;
  for (uint64_t k = 0; k < std::min<uint64_t>(n, 512); ++k) table_before.push_back(orig.GetCDF(static_cast<T>(k)));
  for (uint64_t seed = 0; seed < 8; ++seed) {
    std::mt19937_64 e0{seed}, e1{seed}, e2{seed}, e3{seed}, e4{seed};
    Dist moved_from{orig};
    Dist moved{std::move(moved_from)};
    Dist assigned{mn, mx, alpha + 1.0};
    assigned = orig;
    moved_from = orig;  // a moved-from object is given a value again by copy assignment
    Dist moved_from2{orig};
    Dist sink{std::move(moved_from2)};
    moved_from2 = std::move(sink);  // ... and by move assignment
    std::mt19937_64 e5{seed}, e6{seed};
    for (int i = 0; i < 48; ++i) {
      T a{}, b{}, c{}, d{}, f{}, g{}, h{};
      try {
        a = orig(e0), b = twin(e1), c = copy(e2), d = moved(e3), f = assigned(e4), g = moved_from(e5), h = moved_from2(e6);
      } catch (const std::exception &ex) {
        st.Add("C19,C06", Fmt("DRAW-THROWS:%s", kIsApprox<Dist> ? "approx" : "exact"), std::string("drawing from a copied/moved/re-assigned generator threw: ") + ex.what(), cfg);
        break;
      }
      ++st.evaluations;
      if (a != g || a != h || g < mn || g > mx) {
        st.Add("C19,C06", Fmt("REASSIGNED-DIFFERS:%s", kIsApprox<Dist> ? "approx" : "exact"),
               Fmt("draw %d with seed %" PRIu64 ": original %" PRId64 ", moved-from object after copy assignment %" PRId64 ", after move assignment %" PRId64, i, seed,
                   static_cast<int64_t>(a), static_cast<int64_t>(g), static_cast<int64_t>(h)),
               cfg);
        break;
      }
      if (a != b || a != c || a != d || a != f) {
        st.Add("C19", Fmt("SEQUENCE-DIFFERS:%s", kIsApprox<Dist> ? "approx" : "exact"),
               Fmt("draw %d with seed %" PRIu64 ": original %" PRId64 ", twin %" PRId64 ", copy %" PRId64 ", moved %" PRId64 ", assigned %" PRId64, i, seed,
                   static_cast<int64_t>(a), static_cast<int64_t>(b), static_cast<int64_t>(c), static_cast<int64_t>(d), static_cast<int64_t>(f)),
               cfg);
        break;
      }
    }
    ++st.classes;
  }
  // repeat a sequence on the same object: calls must not have changed it
  {
    std::mt19937_64 e0{99}, e1{99};
    std::vector<T> first, second;
    for (int i = 0; i < 48; ++i) first.push_back(orig(e0));
    for (int i = 0; i < 48; ++i) second.push_back(orig(e1));
    if (first != second) st.Add("C19", Fmt("NOT-REPEATABLE:%s", kIsApprox<Dist> ? "approx" : "exact"), "the same engine state produced a different sequence on the second pass", cfg);
  }
  if (StateHash(orig) != h0) st.Add("C19", Fmt("OBJECT-MODIFIED:%s", kIsApprox<Dist> ? "approx" : "exact"), "the object representation of the generator changed while drawing", cfg);
  for (uint64_t k = 0; k < table_before.size(); ++k) {
    if (orig.GetCDF(static_cast<T>(k)) != table_before[k]) {
      st.Add("C19", Fmt("TABLE-MODIFIED:%s", kIsApprox<Dist> ? "approx" : "exact"), Fmt("GetCDF(%" PRIu64 ") changed while drawing", k), cfg);
      break;
    }
  }
}

template <class T, class Dist>
void
CheckThrow(T mn, T mx, Stats &st)
{
  ++st.evaluations;
  // the construction runs in a child process with a time limit: a change that accepts an inverted range may
  // try to build an astronomically large table instead of throwing
  bool thrown = false;
  bool timed_out = false;
  fflush(nullptr);
  const pid_t pid = fork();
  if (pid == 0) {
    // the limit is on the CPU time the construction consumes (not on wall-clock time, which a loaded machine
    // stretches): the kernel ends the child after 5 s of CPU
    struct rlimit rl {5, 6};
    setrlimit(RLIMIT_CPU, &rl);
    int code = 1;
    try {
      Dist d{mn, mx, 1.0};
      (void)d;
    } catch (const std::bad_alloc &) {
      code = 2;  // tried to build a table for the inverted range: not a rejection of the range
    } catch (const std::length_error &) {
      code = 2;
    } catch (const std::exception &) {
      code = 0;
    }
    _exit(code);
  }
  {
    int status = 0;
    const double t0 = vs::Now();
    for (;;) {
      const pid_t r = waitpid(pid, &status, WNOHANG);
      if (r == pid) break;
      if (vs::Now() - t0 > 300.0) {  // backstop only
        kill(pid, SIGKILL);
        waitpid(pid, &status, 0);
        break;
      }
      usleep(2000);
    }
    timed_out = WIFSIGNALED(status);
    thrown = WIFEXITED(status) && WEXITSTATUS(status) == 0;
  }
  if (!thrown) {
    st.Add("C19", Fmt("NO-THROW:%s", kIsApprox<Dist> ? "approx" : "exact"),
           Fmt("constructing %s<%s>(min=%" PRId64 ", max=%" PRId64 ") did not throw%s", kIsApprox<Dist> ? "ApproxZipfDistribution" : "ZipfDistribution", TypeName<T>(),
               static_cast<int64_t>(mn), static_cast<int64_t>(mx), timed_out ? " (still constructing after 5 s of CPU time)" : ""),
           Fmt("C19;throw;%s;%" PRId64 ";%" PRId64, TypeName<T>(), static_cast<int64_t>(mn), static_cast<int64_t>(mx)));
  }
}

template <class T>
void
RunC19(Stats &st, bool thorough)
{
  std::vector<uint64_t> ns = {1, 2, 3, 10, 100, 101, 1000};
  if (thorough) ns.insert(ns.end(), {7, 99, 257, 5000, 100000});
  for (uint64_t n : ns)
    for (double a : {0.0, 0.5, 1.0, 1.5, 3.0})
      for (T mn : MinsFor<T>(n)) {
        if (mn == std::numeric_limits<T>::min() && n > 1000) continue;
        CheckPurity<T, ZipfDistribution<T>>(mn, n, a, st);
        CheckPurity<T, ApproxZipfDistribution<T>>(mn, n, a, st);
      }
  const std::vector<std::pair<int64_t, int64_t>> bad = {{1, 0}, {5, 4}, {100, -100}, {0, -1}, {1000, 1}};
  for (auto &pr : bad) {
    if (!std::is_signed_v<T> && (pr.first < 0 || pr.second < 0)) continue;
    CheckThrow<T, ZipfDistribution<T>>(static_cast<T>(pr.first), static_cast<T>(pr.second), st);
    CheckThrow<T, ApproxZipfDistribution<T>>(static_cast<T>(pr.first), static_cast<T>(pr.second), st);
  }
  if constexpr (!std::is_signed_v<T>) {
    // unsigned: minima in the upper half of the range (a signed helper would see them as negative)
    const T half = static_cast<T>(T{1} << (sizeof(T) * 8 - 1));
    for (T mn : {half, static_cast<T>(half + 5), std::numeric_limits<T>::max()})
      for (T mx : {T{0}, T{5}, static_cast<T>(half - 1)}) {
        CheckThrow<T, ZipfDistribution<T>>(mn, mx, st);
        CheckThrow<T, ApproxZipfDistribution<T>>(mn, mx, st);
      }
  } else {
    for (T mn : {T{0}, T{5}, std::numeric_limits<T>::max()})
      for (T mx : {std::numeric_limits<T>::min(), static_cast<T>(-1), static_cast<T>(-1000)}) {
        CheckThrow<T, ZipfDistribution<T>>(mn, mx, st);
        CheckThrow<T, ApproxZipfDistribution<T>>(mn, mx, st);
      }
  }
  CheckThrow<T, ZipfDistribution<T>>(std::numeric_limits<T>::max(), static_cast<T>(std::numeric_limits<T>::max() - 1), st);
  CheckThrow<T, ApproxZipfDistribution<T>>(std::numeric_limits<T>::max(), static_cast<T>(std::numeric_limits<T>::max() - 1), st);
  CheckThrow<T, ZipfDistribution<T>>(static_cast<T>(std::numeric_limits<T>::min() + 1), std::numeric_limits<T>::min(), st);
}

/*----------------------------------------------------------------------------------------------
 * C19 (concurrent part): one const generator shared by threads with their own engines;
 * all interleavings at call granularity under the scheduler
 *--------------------------------------------------------------------------------------------*/
struct Shared {
  ZipfDistribution<uint64_t> *z = nullptr;
  ApproxZipfDistribution<int32_t> *az = nullptr;
  uint64_t solo_z[4][4];
  int32_t solo_az[4][4];
  uint64_t got_z[4][4];
  int32_t got_az[4][4];
  long point = 0;
} *SH;
int g_nthreads = 2, g_draws = 2;

vs::Scenario
ConcurrentScenario()
{
  vs::Scenario s;
  s.nthreads = g_nthreads;
  s.setup = [] {
    SH = new Shared{};
    SH->z = new ZipfDistribution<uint64_t>{5, 5 + 999, 1.0};
    SH->az = new ApproxZipfDistribution<int32_t>{-50, 20000, 0.9};
    // the sequences each thread gets alone come from equal-parameter twins, so that the shared
    // generators have never been called before the threads start (first-call effects stay visible)
    ZipfDistribution<uint64_t> tz{5, 5 + 999, 1.0};
    ApproxZipfDistribution<int32_t> taz{-50, 20000, 0.9};
    for (int t = 0; t < g_nthreads; ++t) {
      std::mt19937_64 e{static_cast<uint64_t>(1000 + t)};
      for (int i = 0; i < g_draws; ++i) {
        SH->solo_z[t][i] = tz(e);
        SH->solo_az[t][i] = taz(e);
      }
    }
  };
  s.deadlock_props = "C19";
  s.alloc_points = true;  // allocations inside a call are scheduling points (lazy initialisation, caches)
  s.body = [](int t) {
    std::mt19937_64 e{static_cast<uint64_t>(1000 + t)};
    const auto &z = *SH->z;
    const auto &az = *SH->az;
    for (int i = 0; i < g_draws; ++i) {
      vs::Boundary(static_cast<uint64_t>(i) * 2);
      vs::PlainPoint(&SH->point, false);
      SH->got_z[t][i] = z(e);
      vs::Boundary(static_cast<uint64_t>(i) * 2 + 1);
      vs::PlainPoint(&SH->point, false);
      SH->got_az[t][i] = az(e);
    }
  };
  s.teardown = [] {
    for (int t = 0; t < g_nthreads; ++t)
      for (int i = 0; i < g_draws; ++i) {
        if (SH->got_z[t][i] != SH->solo_z[t][i] || SH->got_az[t][i] != SH->solo_az[t][i]) {
          vs::Violate("C19", "CONCURRENT-SEQUENCE-DIFFERS", Fmt("thread %d draw %d differs from the sequence the thread gets alone", t, i));
        }
      }
    delete SH->z;
    delete SH->az;
    delete SH;
    SH = nullptr;
  };
  s.digest = [] {
    uint64_t h = 5;
    // generator object bytes: a mutable member changed by calls must distinguish states
    h = vs::Mix(h, StateHash(*SH->z));
    h = vs::Mix(h, StateHash(*SH->az));
    return h;
  };
  s.outcome = [] { return std::string("ok"); };
  return s;
}

/*----------------------------------------------------------------------------------------------
 * job table
 *--------------------------------------------------------------------------------------------*/
std::string
StatsJson(const Stats &st, const std::string &name, double wall)
{
  std::string s = Fmt("{\"job\":\"%s\",\"evaluations\":%" PRIu64 ",\"classes\":%" PRIu64 ",\"configs\":%" PRIu64
                      ",\"max_cdf_err\":%.3g,\"max_mono_drop\":%.3g,\"max_approx_err\":%.3g,\"wall_s\":%.3f,\"findings\":[",
                      name.c_str(), st.evaluations, st.classes, st.configs, st.max_cdf_err, st.max_mono_drop, st.max_approx_err, wall);
  for (size_t i = 0; i < st.findings.size(); ++i) {
    auto &f = st.findings[i];
    if (i) s += ",";
    s += "{\"prop\":\"" + f.prop + "\",\"sig\":\"" + vs::JsonEscape(f.sig) + "\",\"msg\":\"" + vs::JsonEscape(f.msg) + "\",\"input\":\"" + vs::JsonEscape(f.input) + "\"}";
  }
  return s + "]}";
}

std::vector<uint64_t>
NsC06(bool thorough, int part)
{
  std::vector<uint64_t> ns;
  if (part == 0) {
    for (uint64_t n = 1; n <= 130; ++n) ns.push_back(n);
  } else if (part == 1) {
    ns = {199, 200, 201, 255, 256, 257, 999, 1000, 1001};
  } else if (part == 2 && thorough) {
    ns = {4096, 100000};
  } else if (part == 3 && thorough) {
    ns = {1000000};
  } else if (part == 4 && thorough) {
    for (uint64_t n = 131; n < 199; n += 7) ns.push_back(n);
    ns.insert(ns.end(), {300, 500, 777, 2000, 5000, 65536});
  }
  return ns;
}

std::vector<double>
AlphasC18(bool thorough)
{
  std::vector<double> a;
  const int steps = thorough ? 300 : 60;
  for (int i = 0; i <= steps; ++i) a.push_back(3.0 * i / steps);
  for (double d : {1e-15, 1e-13, 1e-9, 1e-6, 1e-3}) {
    a.push_back(1.0 - d);
    a.push_back(1.0 + d);
  }
  a.push_back(std::nextafter(1.0, 0.0));
  a.push_back(std::nextafter(1.0, 2.0));
  a.push_back(0.1 + 0.2 + 0.7);
  for (double d : {5.0, 10.0, 50.0, 700.0}) a.push_back(d);
  return a;
}

template <class T>
std::string
RunJobT(const std::string &kind, int part, bool thorough)
{
  Stats st;
  const double t0 = vs::Now();
  if (kind == "c06e" || kind == "c06a") {
    const bool approx = kind == "c06a";
    auto ns = NsC06(thorough, part);
    if (!approx) {
      // the exact class builds an n-entry table: keep n moderate
      std::vector<uint64_t> keep;
      for (auto n : ns)
        if (n <= 100000) keep.push_back(n);
      ns = keep;
    }
    RunC06<T>(ns, st, approx, part >= 2 ? 997 : 1);
    if (part == 0) DefaultCtor<T>(st);
  } else if (kind == "c06j") {
    // part p of 4: n = 101+p, 105+p, ... (all n in 101..260 over the four parts) plus a few larger ones
    std::vector<uint64_t> ns;
    for (uint64_t n = 101 + static_cast<uint64_t>(part); n <= 260; n += 4) ns.push_back(n);
    if (part == 0) ns.insert(ns.end(), {300, 1000, 1001, 100000});
    const int steps = thorough ? 1200 : 600;
    for (uint64_t n : ns)
      for (int ai = 0; ai <= steps; ++ai) EnumerateJunction<T>(n, 60.0 * ai / steps, st);
  } else if (kind == "c06w") {
    if constexpr (sizeof(T) == 4) RunWide<T>(part, thorough, st);
  } else if (kind == "c18e" || kind == "c18a") {
    const bool exact = kind == "c18e";
    std::vector<uint64_t> ns;
    if (part == 0) {
      for (uint64_t n = 1; n <= 130; ++n) ns.push_back(n);
    } else if (part == 1) {
      ns = {199, 200, 201, 255, 256, 257, 999, 1000, 1001, 1100, 2000, 10000};
    } else if (part == 2 && thorough) {
      ns = {100000};
    } else if (part == 3) {
      ns = {1000000};
    } else if (part == 4) {
      ns = {3000000, 5000000};
    } else if (part == 5 && thorough) {
      ns = {131, 150, 300, 500, 777, 1500, 5000, 50000};
    }
    auto alphas = AlphasC18(thorough);
    if (part == 5) alphas = AlphasC18(false);
    if (part >= 3) {
      // very large n: coarser alpha grid plus the shortcut neighbourhood
      alphas = {0.0, 0.5, 0.85, 0.99, 1.0 - 1e-15, 1.0 - 1e-9, std::nextafter(1.0, 0.0), 1.0, std::nextafter(1.0, 2.0), 1.0 + 1e-9, 1.05, 1.1, 1.2, 1.5, 2.0, 3.0, 50.0};
      if (!thorough) alphas = {0.0, 0.5, 0.9, 1.0, 1.05, 1.1, 1.2, 1.3, 2.0, 3.0};
    }
    for (uint64_t n : ns)
      for (double a : alphas) CheckC18<T>(n, a, st, exact);
  } else if (kind == "c19") {
    RunC19<T>(st, thorough);
  }
  return StatsJson(st, kind + "/" + TypeName<T>() + "/" + std::to_string(part), vs::Now() - t0);
}

std::string
RunJob(const vs::Job &j, bool thorough)
{
  // name = kind:type:part
  std::stringstream ss(j.name);
  std::string kind, type, part;
  std::getline(ss, kind, ':');
  std::getline(ss, type, ':');
  std::getline(ss, part, ':');
  const int p = atoi(part.c_str());
  if (kind == "c19conc") {
    g_nthreads = 2 + p % 2;
    g_draws = 2 + p / 2;
    auto scn = ConcurrentScenario();
    vs::Config cfg;
    cfg.bound = -1;
    cfg.budget_s = 120;
    auto r = vs::Explore(scn, cfg);
    Stats st;
    st.evaluations = r.executions;
    st.classes = r.states;
    st.configs = 1;
    for (auto &v : r.violations) st.Add("C19", v.sig, v.msg + " (schedule " + vs::ChoicesToString(v.choices) + ")", Fmt("C19;conc;%d;%d", g_nthreads, g_draws));
    return StatsJson(st, Fmt("c19conc/%dthreads/%ddraws/exhaustive=%d", g_nthreads, g_draws, r.exhaustive ? 1 : 0), r.wall_s);
  }
  if (type == "u32") return RunJobT<uint32_t>(kind, p, thorough);
  if (type == "u64") return RunJobT<uint64_t>(kind, p, thorough);
  if (type == "i32") return RunJobT<int32_t>(kind, p, thorough);
  return RunJobT<int64_t>(kind, p, thorough);
}

template <class T>
int
ReplayInputT(const std::vector<std::string> &f)
{
  // C06;type;class;min;max;alpha;x
  const T mn = static_cast<T>(strtoll(f[3].c_str(), nullptr, 10));
  const T mx = static_cast<T>(strtoll(f[4].c_str(), nullptr, 10));
  const double alpha = strtod(f[5].c_str(), nullptr);
  const uint64_t x = strtoull(f[6].c_str(), nullptr, 10);
  Stats st;
  if (f[2] == "wide") {
    if constexpr (sizeof(T) == 4) EnumerateWide<T>(mn, static_cast<uint64_t>(static_cast<uint32_t>(mx) - static_cast<uint32_t>(mn)) + 1, alpha, st);
  } else if (f[2] == "approx") {
    ApproxZipfDistribution<T> d{mn, mx, alpha};
    CheckDraw<T>(d, mn, mx, alpha, x, st, "replay");
  } else if (f[2] == "exact") {
    ZipfDistribution<T> d{mn, mx, alpha};
    CheckDraw<T>(d, mn, mx, alpha, x, st, "replay");
  } else {
    DefaultCtor<T>(st);
  }
  for (auto &fi : st.findings) printf("VIOLATION-DETAIL [%s] %s: %s\n", fi.prop.c_str(), fi.sig.c_str(), fi.msg.c_str());
  return st.findings.empty() ? 0 : 1;
}

}  // namespace

int
main(int argc, char **argv)
{
  std::string prop, outp, replay;
  bool thorough = false;
  int nproc = 16;
  double budget = 300;
  for (int i = 1; i < argc; ++i) {
    std::string k = argv[i];
    auto val = [&]() -> std::string { return i + 1 < argc ? argv[++i] : ""; };
    if (k == "--prop") prop = val();
    else if (k == "--thorough") thorough = true;
    else if (k == "--nproc") nproc = atoi(val().c_str());
    else if (k == "--budget") budget = atof(val().c_str());
    else if (k == "--out") outp = val();
    else if (k == "--replay-input") replay = val();
    else {
      fprintf(stderr, "unknown argument %s\n", k.c_str());
      return 2;
    }
  }
  if (!replay.empty()) {
    std::vector<std::string> f;
    std::stringstream ss(replay);
    std::string x;
    while (std::getline(ss, x, ';')) f.push_back(x);
    printf("== replay input %s\n", replay.c_str());
    if (f.size() >= 7 && f[0] == "C06") {
      int rc = 0;
      if (f[1] == "u32") rc = ReplayInputT<uint32_t>(f);
      else if (f[1] == "u64") rc = ReplayInputT<uint64_t>(f);
      else if (f[1] == "i32") rc = ReplayInputT<int32_t>(f);
      else rc = ReplayInputT<int64_t>(f);
      return rc;
    }
    if (f.size() >= 4 && f[0] == "C18") {
      // C18;class;type;n=..;alpha=..[;k=..]
      Stats st;
      const uint64_t n = strtoull(f[3].c_str() + 2, nullptr, 10);
      const double a = strtod(f[4].c_str() + 6, nullptr);
      const bool exact = f[1] == "exact";
      if (f[2] == "u32") CheckC18<uint32_t>(n, a, st, exact);
      else if (f[2] == "u64") CheckC18<uint64_t>(n, a, st, exact);
      else if (f[2] == "i32") CheckC18<int32_t>(n, a, st, exact);
      else CheckC18<int64_t>(n, a, st, exact);
      for (auto &fi : st.findings) printf("VIOLATION-DETAIL [%s] %s: %s\n", fi.prop.c_str(), fi.sig.c_str(), fi.msg.c_str());
      return st.findings.empty() ? 0 : 1;
    }
    printf("(replay of this input kind re-runs the whole check: ./check %s)\n", f[0].c_str());
    return 0;
  }
  std::vector<vs::Job> jobs;
  const char *types[] = {"u32", "u64", "i32", "i64"};
  if (prop == "C06") {
    for (const char *kind : {"c06e", "c06a"})
      for (const char *t : types)
        for (int part = 0; part < (thorough ? 5 : 2); ++part) jobs.push_back(vs::Job{std::string(kind) + ":" + t + ":" + std::to_string(part), ""});
    for (const char *t : {"u64", "i32"})
      for (int part = 0; part < 4; ++part) jobs.push_back(vs::Job{std::string("c06j:") + t + ":" + std::to_string(part), ""});
    for (const char *t : {"u32", "i32"})
      for (int part = 0; part < 8; ++part) jobs.push_back(vs::Job{std::string("c06w:") + t + ":" + std::to_string(part), ""});
    // object life cycle (copied / moved-from / re-assigned generators must still sample in range): shared with C19
    for (const char *t : types) jobs.push_back(vs::Job{std::string("c19:") + t + ":0", ""});
  } else if (prop == "C18") {
    for (const char *kind : {"c18e", "c18a"})
      for (const char *t : types)
        for (int part = 0; part < (thorough ? 6 : 5); ++part) {
          if (!thorough && part == 2) continue;
          if (!thorough && part >= 3 && std::string(t) != "u64") continue;  // quick: the large-n jobs (10^6, 3*10^6 bins) for one type, both classes
          if (thorough && part >= 2 && part <= 4 && std::string(t) != "u64" && std::string(t) != "i32") continue;  // large n: two types suffice (same code path)
          jobs.push_back(vs::Job{std::string(kind) + ":" + t + ":" + std::to_string(part), ""});
        }
  } else if (prop == "C19") {
    for (const char *t : types) jobs.push_back(vs::Job{std::string("c19:") + t + ":0", ""});
    for (int p = 0; p < (thorough ? 4 : 2); ++p) jobs.push_back(vs::Job{"c19conc:x:" + std::to_string(p), ""});
  }
  const double t0 = vs::Now();
  auto results = vs::RunJobs(jobs, nproc, budget + 60, budget, [&](const vs::Job &j) { return RunJob(j, thorough); });
  FILE *out = outp.empty() ? stdout : fopen(outp.c_str(), "w");
  int rc = 0;
  for (auto &r : results) {
    fprintf(out, "{\"name\":\"%s\",\"status\":%d,\"err\":\"%s\",\"result\":%s}\n", r.job.name.c_str(), r.status, vs::JsonEscape(r.err).c_str(),
            r.json.empty() ? "null" : r.json.c_str());
    if (r.status == 2) rc = 2;
  }
  fprintf(out, "{\"summary\":true,\"jobs\":%zu,\"wall_s\":%.3f}\n", results.size(), vs::Now() - t0);
  if (out != stdout) fclose(out);
  return rc;
}
