// vshim.hpp — force-included (-include) in front of every repo source and harness TU.
//
// 1. pulls in the whole standard library, so that no standard header is parsed later with
//    renamed tokens (all include guards are already set);
// 2. defines instrumented replacements for the few names through which the library touches
//    shared state (atomics, fences, spin hints, sleep, thread id, shared_ptr/weak_ptr);
// 3. renames those tokens for the rest of the translation unit.
//
// Harness code includes vshim_off.hpp after the repo headers to drop the renames again.
#pragma once
#ifndef CPP_UTILITY_VERIF
#define CPP_UTILITY_VERIF 1
#endif

#include <bits/stdc++.h>
#include <x86intrin.h>

#include "vs.hpp"

#define VSHIM_INLINE inline __attribute__((always_inline))

namespace vshim
{
template <class T>
VSHIM_INLINE uint64_t
ToU64(T v) noexcept
{
  if constexpr (std::is_pointer_v<T>) {
    return reinterpret_cast<uint64_t>(v);
  } else {
    return static_cast<uint64_t>(v);
  }
}

constexpr uint8_t
FailOrder(std::memory_order mo) noexcept
{
  switch (mo) {
    case std::memory_order_acq_rel:
      return static_cast<uint8_t>(std::memory_order_acquire);
    case std::memory_order_release:
      return static_cast<uint8_t>(std::memory_order_relaxed);
    default:
      return static_cast<uint8_t>(mo);
  }
}

template <class T>
struct Atomic;

// notification sequence numbers for atomic wait/notify, indexed by a hash of the address (a collision
// only causes a spurious wake-up, which the standard allows)
inline Atomic<uint32_t> *NotifySeq(const void *addr) noexcept;

template <class T>
struct Atomic {
  static_assert(std::is_trivially_copyable_v<T> && sizeof(T) <= 8);
  using value_type = T;
  static constexpr bool is_always_lock_free = true;

  mutable T v_;

  constexpr Atomic() noexcept : v_{} {}
  constexpr Atomic(T d) noexcept : v_{d} {}  // NOLINT
  Atomic(const Atomic &) = delete;
  auto operator=(const Atomic &) -> Atomic & = delete;
  auto operator=(const Atomic &) volatile -> Atomic & = delete;

  [[nodiscard]] bool is_lock_free() const noexcept { return true; }

  VSHIM_INLINE T
  load(std::memory_order mo = std::memory_order_seq_cst) const noexcept
  {
    vs::Op op{vs::K_LOAD, sizeof(T), static_cast<uint8_t>(mo), 0, &v_, nullptr, 0, false};
    vs::pre(op);
    T r = __atomic_load_n(&v_, __ATOMIC_SEQ_CST);
    vs::post(op, ToU64(r), 0, false);
    return r;
  }

  VSHIM_INLINE void
  store(T d, std::memory_order mo = std::memory_order_seq_cst) noexcept
  {
    vs::Op op{vs::K_STORE, sizeof(T), static_cast<uint8_t>(mo), 0, &v_, nullptr, 0, false};
    vs::pre(op);
    T old = __atomic_load_n(&v_, __ATOMIC_SEQ_CST);
    __atomic_store_n(&v_, d, __ATOMIC_SEQ_CST);
    vs::post(op, ToU64(old), ToU64(d), true);
  }

  VSHIM_INLINE T
  exchange(T d, std::memory_order mo = std::memory_order_seq_cst) noexcept
  {
    vs::Op op{vs::K_RMW, sizeof(T), static_cast<uint8_t>(mo), 0, &v_, nullptr, 0, false};
    vs::pre(op);
    T old = __atomic_exchange_n(&v_, d, __ATOMIC_SEQ_CST);
    vs::post(op, ToU64(old), ToU64(d), true);
    return old;
  }

  VSHIM_INLINE bool
  Cas(T &exp, T des, std::memory_order s, uint8_t f, bool weak) noexcept
  {
    vs::Op op{vs::K_CAS, sizeof(T), static_cast<uint8_t>(s), f, &v_, nullptr, ToU64(exp), weak};
    const bool spurious = vs::pre(op);
    T cur = __atomic_load_n(&v_, __ATOMIC_SEQ_CST);
    const bool ok = !spurious && ToU64(cur) == ToU64(exp);
    if (ok) {
      __atomic_store_n(&v_, des, __ATOMIC_SEQ_CST);
    } else {
      exp = cur;
    }
    vs::post(op, ToU64(cur), ok ? ToU64(des) : 0, ok);
    return ok;
  }

  VSHIM_INLINE bool
  compare_exchange_weak(T &e, T d, std::memory_order s, std::memory_order f) noexcept
  {
    return Cas(e, d, s, static_cast<uint8_t>(f), true);
  }
  VSHIM_INLINE bool
  compare_exchange_weak(T &e, T d, std::memory_order s = std::memory_order_seq_cst) noexcept
  {
    return Cas(e, d, s, FailOrder(s), true);
  }
  VSHIM_INLINE bool
  compare_exchange_strong(T &e, T d, std::memory_order s, std::memory_order f) noexcept
  {
    return Cas(e, d, s, static_cast<uint8_t>(f), false);
  }
  VSHIM_INLINE bool
  compare_exchange_strong(T &e, T d, std::memory_order s = std::memory_order_seq_cst) noexcept
  {
    return Cas(e, d, s, FailOrder(s), false);
  }

  template <class F>
  VSHIM_INLINE T
  Rmw(std::memory_order mo, F f) noexcept
  {
    vs::Op op{vs::K_RMW, sizeof(T), static_cast<uint8_t>(mo), 0, &v_, nullptr, 0, false};
    vs::pre(op);
    T old = __atomic_load_n(&v_, __ATOMIC_SEQ_CST);
    T nv = f(old);
    __atomic_store_n(&v_, nv, __ATOMIC_SEQ_CST);
    vs::post(op, ToU64(old), ToU64(nv), true);
    return old;
  }

  // arithmetic / bitwise (integral and pointer arithmetic in units of T for integrals only)
  VSHIM_INLINE T
  fetch_add(T a, std::memory_order mo = std::memory_order_seq_cst) noexcept
  {
    return Rmw(mo, [a](T o) { return static_cast<T>(o + a); });
  }
  VSHIM_INLINE T
  fetch_sub(T a, std::memory_order mo = std::memory_order_seq_cst) noexcept
  {
    return Rmw(mo, [a](T o) { return static_cast<T>(o - a); });
  }
  VSHIM_INLINE T
  fetch_and(T a, std::memory_order mo = std::memory_order_seq_cst) noexcept
  {
    return Rmw(mo, [a](T o) { return static_cast<T>(o & a); });
  }
  VSHIM_INLINE T
  fetch_or(T a, std::memory_order mo = std::memory_order_seq_cst) noexcept
  {
    return Rmw(mo, [a](T o) { return static_cast<T>(o | a); });
  }
  VSHIM_INLINE T
  fetch_xor(T a, std::memory_order mo = std::memory_order_seq_cst) noexcept
  {
    return Rmw(mo, [a](T o) { return static_cast<T>(o ^ a); });
  }

  VSHIM_INLINE operator T() const noexcept { return load(); }  // NOLINT
  VSHIM_INLINE T
  operator=(T d) noexcept
  {
    store(d);
    return d;
  }
  VSHIM_INLINE T operator++() noexcept { return fetch_add(1) + 1; }
  VSHIM_INLINE T operator++(int) noexcept { return fetch_add(1); }
  VSHIM_INLINE T operator--() noexcept { return fetch_sub(1) - 1; }
  VSHIM_INLINE T operator--(int) noexcept { return fetch_sub(1); }
  VSHIM_INLINE T operator+=(T a) noexcept { return fetch_add(a) + a; }
  VSHIM_INLINE T operator-=(T a) noexcept { return fetch_sub(a) - a; }
  VSHIM_INLINE T operator&=(T a) noexcept { return fetch_and(a) & a; }
  VSHIM_INLINE T operator|=(T a) noexcept { return fetch_or(a) | a; }
  VSHIM_INLINE T operator^=(T a) noexcept { return fetch_xor(a) ^ a; }

  // C++20 waiting: returns only after the value differs from `old`; blocks until notified in between
  void
  wait(T old, std::memory_order mo = std::memory_order_seq_cst) const noexcept
  {
    auto *seq = NotifySeq(&v_);
    for (;;) {
      const auto s0 = seq->load(std::memory_order_acquire);
      if (ToU64(load(mo)) != ToU64(old)) return;
      while (seq->load(std::memory_order_acquire) == s0) {
        // parked until a notify_* on this address (the scheduler sees a thread spinning on `seq`)
      }
    }
  }
  void notify_one() noexcept { NotifySeq(&v_)->fetch_add(1, std::memory_order_release); }
  void notify_all() noexcept { NotifySeq(&v_)->fetch_add(1, std::memory_order_release); }

  // raw (unscheduled, unreported) access for harness code
  [[nodiscard]] T Raw() const noexcept { return __atomic_load_n(&v_, __ATOMIC_SEQ_CST); }
  void RawStore(T v) noexcept { __atomic_store_n(&v_, v, __ATOMIC_SEQ_CST); }
};

// std::atomic_ref: the referenced object is operated on through the same instrumented primitives (Atomic<T> is a
// standard-layout struct holding just the value)
template <class T>
struct AtomicRef {
  static_assert(std::is_trivially_copyable_v<T> && sizeof(T) <= 8);
  using value_type = T;
  static constexpr bool is_always_lock_free = true;
  static constexpr size_t required_alignment = alignof(T);
  explicit AtomicRef(T &o) noexcept : p_{reinterpret_cast<Atomic<T> *>(&o)} {}
  AtomicRef(const AtomicRef &) noexcept = default;
  auto operator=(const AtomicRef &) -> AtomicRef & = delete;
  [[nodiscard]] bool is_lock_free() const noexcept { return true; }
  T load(std::memory_order m = std::memory_order_seq_cst) const noexcept { return p_->load(m); }
  void store(T d, std::memory_order m = std::memory_order_seq_cst) const noexcept { p_->store(d, m); }
  T exchange(T d, std::memory_order m = std::memory_order_seq_cst) const noexcept { return p_->exchange(d, m); }
  bool compare_exchange_weak(T &e, T d, std::memory_order s, std::memory_order f) const noexcept { return p_->compare_exchange_weak(e, d, s, f); }
  bool compare_exchange_weak(T &e, T d, std::memory_order s = std::memory_order_seq_cst) const noexcept { return p_->compare_exchange_weak(e, d, s); }
  bool compare_exchange_strong(T &e, T d, std::memory_order s, std::memory_order f) const noexcept { return p_->compare_exchange_strong(e, d, s, f); }
  bool compare_exchange_strong(T &e, T d, std::memory_order s = std::memory_order_seq_cst) const noexcept { return p_->compare_exchange_strong(e, d, s); }
  template <class U = T> auto fetch_add(U d, std::memory_order m = std::memory_order_seq_cst) const noexcept { return p_->fetch_add(d, m); }
  template <class U = T> auto fetch_sub(U d, std::memory_order m = std::memory_order_seq_cst) const noexcept { return p_->fetch_sub(d, m); }
  template <class U = T> auto fetch_and(U d, std::memory_order m = std::memory_order_seq_cst) const noexcept { return p_->fetch_and(d, m); }
  template <class U = T> auto fetch_or(U d, std::memory_order m = std::memory_order_seq_cst) const noexcept { return p_->fetch_or(d, m); }
  template <class U = T> auto fetch_xor(U d, std::memory_order m = std::memory_order_seq_cst) const noexcept { return p_->fetch_xor(d, m); }
  operator T() const noexcept { return load(); }  // NOLINT
  T operator=(T d) const noexcept { store(d); return d; }  // NOLINT
  void wait(T old, std::memory_order m = std::memory_order_seq_cst) const noexcept { p_->wait(old, m); }
  void notify_one() const noexcept { p_->notify_one(); }
  void notify_all() const noexcept { p_->notify_all(); }
  Atomic<T> *p_;
};

inline Atomic<uint32_t> *
NotifySeq(const void *addr) noexcept
{
  static Atomic<uint32_t> table[256];
  auto h = reinterpret_cast<uintptr_t>(addr);
  h ^= h >> 12U;
  return &table[(h >> 3U) & 255U];
}

struct AtomicFlag {
  Atomic<bool> f_{};
  constexpr AtomicFlag() noexcept = default;
  VSHIM_INLINE bool
  test_and_set(std::memory_order mo = std::memory_order_seq_cst) noexcept
  {
    return f_.exchange(true, mo);
  }
  VSHIM_INLINE void
  clear(std::memory_order mo = std::memory_order_seq_cst) noexcept
  {
    f_.store(false, mo);
  }
  VSHIM_INLINE bool
  test(std::memory_order mo = std::memory_order_seq_cst) const noexcept
  {
    return f_.load(mo);
  }
};

VSHIM_INLINE void
Fence(std::memory_order mo) noexcept
{
  vs::Op op{vs::K_FENCE, 0, static_cast<uint8_t>(mo), 0, nullptr, nullptr, 0, false};
  vs::pre(op);
  vs::post(op, 0, 0, false);
}

VSHIM_INLINE void
Pause() noexcept
{
  if (!vs::active()) {
    _mm_pause();
    return;
  }
  vs::Op op{vs::K_YIELD, 0, 0, 0, nullptr, nullptr, 0, false};
  vs::pre(op);
  vs::post(op, 0, 0, false);
}

template <class Rep, class Period>
VSHIM_INLINE void
SleepFor(const std::chrono::duration<Rep, Period> &d)
{
  if (!vs::active()) {
    std::this_thread::sleep_for(d);
    return;
  }
  vs::Op op{vs::K_YIELD, 1, 0, 0, nullptr, nullptr, 0, false};
  vs::pre(op);
  vs::post(op, 0, 0, false);
}

VSHIM_INLINE void
Yield() noexcept
{
  if (!vs::active()) {
    std::this_thread::yield();
    return;
  }
  vs::Op op{vs::K_YIELD, 2, 0, 0, nullptr, nullptr, 0, false};
  vs::pre(op);
  vs::post(op, 0, 0, false);
}

inline std::thread::id
GetId() noexcept
{
  if (!vs::active()) return std::this_thread::get_id();
  return std::thread::id{static_cast<std::thread::native_handle_type>(vs::fake_thread_handle())};
}

/*------------------------------------------------------------------------------------------
 * mutex / shared_mutex / condition_variable built on instrumented atomics, so that blocking
 * primitives introduced by a change to the library stay visible to the scheduler
 *----------------------------------------------------------------------------------------*/
class Mutex
{
 public:
  constexpr Mutex() noexcept = default;
  Mutex(const Mutex &) = delete;
  auto operator=(const Mutex &) -> Mutex & = delete;
  void
  lock() noexcept
  {
    for (;;) {
      bool exp = false;
      if (!held_.load(std::memory_order_relaxed) && held_.compare_exchange_strong(exp, true, std::memory_order_acquire, std::memory_order_relaxed)) return;
      Yield();
    }
  }
  bool
  try_lock() noexcept
  {
    bool exp = false;
    return held_.compare_exchange_strong(exp, true, std::memory_order_acquire, std::memory_order_relaxed);
  }
  void unlock() noexcept { held_.store(false, std::memory_order_release); }
  using native_handle_type = void *;

 private:
  Atomic<bool> held_{false};
};

class SharedMutex
{
 public:
  constexpr SharedMutex() noexcept = default;
  SharedMutex(const SharedMutex &) = delete;
  auto operator=(const SharedMutex &) -> SharedMutex & = delete;
  void
  lock() noexcept
  {
    for (;;) {
      int exp = 0;
      if (state_.load(std::memory_order_relaxed) == 0 && state_.compare_exchange_strong(exp, -1, std::memory_order_acquire, std::memory_order_relaxed)) return;
      Yield();
    }
  }
  bool
  try_lock() noexcept
  {
    int exp = 0;
    return state_.compare_exchange_strong(exp, -1, std::memory_order_acquire, std::memory_order_relaxed);
  }
  void unlock() noexcept { state_.store(0, std::memory_order_release); }
  void
  lock_shared() noexcept
  {
    for (;;) {
      int cur = state_.load(std::memory_order_relaxed);
      if (cur >= 0 && state_.compare_exchange_strong(cur, cur + 1, std::memory_order_acquire, std::memory_order_relaxed)) return;
      Yield();
    }
  }
  bool
  try_lock_shared() noexcept
  {
    int cur = state_.load(std::memory_order_relaxed);
    return cur >= 0 && state_.compare_exchange_strong(cur, cur + 1, std::memory_order_acquire, std::memory_order_relaxed);
  }
  void unlock_shared() noexcept { state_.fetch_sub(1, std::memory_order_release); }

 private:
  Atomic<int> state_{0};  // -1 exclusive, n >= 0 sharers
};

class CondVar
{
 public:
  CondVar() noexcept = default;
  CondVar(const CondVar &) = delete;
  auto operator=(const CondVar &) -> CondVar & = delete;
  void notify_one() noexcept { seq_.fetch_add(1, std::memory_order_release); }
  void notify_all() noexcept { seq_.fetch_add(1, std::memory_order_release); }
  template <class Lock>
  void
  wait(Lock &lk)
  {
    const auto s0 = seq_.load(std::memory_order_acquire);
    lk.unlock();
    while (seq_.load(std::memory_order_acquire) == s0) {
    }
    lk.lock();
  }
  template <class Lock, class Pred>
  void
  wait(Lock &lk, Pred p)
  {
    while (!p()) wait(lk);
  }
  // timed waits: the time-out is an environment answer the scheduler does not model; they behave
  // like untimed waits that may also return spuriously once
  template <class Lock, class Rep, class Period>
  std::cv_status
  wait_for(Lock &lk, const std::chrono::duration<Rep, Period> &)
  {
    lk.unlock();
    Yield();
    lk.lock();
    return std::cv_status::timeout;
  }
  template <class Lock, class Rep, class Period, class Pred>
  bool
  wait_for(Lock &lk, const std::chrono::duration<Rep, Period> &d, Pred p)
  {
    if (!p()) (void)wait_for(lk, d);
    return p();
  }

 private:
  Atomic<uint32_t> seq_{0};
};

/*------------------------------------------------------------------------------------------
 * minimal shared_ptr / weak_ptr whose strong reference count is an instrumented atomic, so that
 * "the last owner went away" and "expired()" are visible, schedulable steps.
 *----------------------------------------------------------------------------------------*/
template <class T>
struct Ctrl;
// rarely needed parts of a control block, allocated on demand: the block itself stays as small as the one of the
// standard library (an allocator given to allocate_shared may hand out storage of exactly that size)
template <class T>
struct CtrlSide {
  T *ext{nullptr};                   // object adopted through a pointer (shared_ptr<T>{p} / {p, deleter} / reset(p))
  void (*del)(Ctrl<T> *){nullptr};   // how an adopted object is destroyed (custom deleter), null: delete
  void *dstate{nullptr};             // copy of the custom deleter
  bool adopted{false};
  void (*release)(Ctrl<T> *){nullptr};  // allocate_shared: gives the control block back to the allocator it came from
  void *astate{nullptr};                // copy of that allocator
};

template <class T>
struct Ctrl {
  Atomic<long> strong{1};
  long weak{1};  // +1 for the group of strong owners; touched only by the running thread
  CtrlSide<T> *side{nullptr};
  alignas(T) unsigned char buf[sizeof(T)];
  CtrlSide<T> &
  Side()
  {
    if (side == nullptr) side = new CtrlSide<T>{};
    return *side;
  }
  T *Ptr() { return (side != nullptr && side->adopted) ? side->ext : std::launder(reinterpret_cast<T *>(buf)); }
  void
  Destroy()
  {
    if (side == nullptr || !side->adopted) {
      Ptr()->~T();
    } else if (side->del != nullptr) {
      side->del(this);
    } else {
      delete side->ext;
    }
  }
  template <class D>
  static void
  RunDeleter(Ctrl *c)
  {
    auto *d = static_cast<D *>(c->side->dstate);
    (*d)(c->side->ext);
    delete d;
  }
  // the last (strong or weak) reference is gone
  static void
  Free(Ctrl *c)
  {
    if (c->side != nullptr && c->side->release != nullptr) {
      c->side->release(c);
    } else {
      delete c->side;
      delete c;
    }
  }
  template <class A>
  static void
  ReleaseThroughAllocator(Ctrl *c)
  {
    using CA = typename std::allocator_traits<A>::template rebind_alloc<Ctrl>;
    auto *a = static_cast<CA *>(c->side->astate);
    CA alloc{*a};
    delete a;
    delete c->side;
    c->~Ctrl();
    std::allocator_traits<CA>::deallocate(alloc, c, 1);
  }
};

template <class T>
class WeakPtr;

template <class T>
class SharedPtr
{
 public:
  using element_type = T;
  constexpr SharedPtr() noexcept = default;
  constexpr SharedPtr(std::nullptr_t) noexcept {}  // NOLINT
  SharedPtr(const SharedPtr &o) noexcept : c_{o.c_}
  {
    if (c_) c_->strong.fetch_add(1, std::memory_order_relaxed);
  }
  SharedPtr(SharedPtr &&o) noexcept : c_{o.c_} { o.c_ = nullptr; }
  // adoption of an existing object, with or without a custom deleter (it runs when the last owner goes away,
  // i.e. right after the step that makes the strong count zero)
  explicit SharedPtr(T *p) : c_{new Ctrl<T>{}}
  {
    c_->Side().adopted = true;
    c_->Side().ext = p;
  }
  template <class D>
  SharedPtr(T *p, D d) : c_{new Ctrl<T>{}}
  {
    c_->Side().adopted = true;
    c_->Side().ext = p;
    c_->Side().dstate = new D(std::move(d));
    c_->Side().del = &Ctrl<T>::template RunDeleter<D>;
  }
  void
  reset(T *p)
  {
    SharedPtr tmp{p};
    std::swap(c_, tmp.c_);
  }
  template <class D>
  void
  reset(T *p, D d)
  {
    SharedPtr tmp{p, std::move(d)};
    std::swap(c_, tmp.c_);
  }
  friend bool operator==(const SharedPtr &a, std::nullptr_t) noexcept { return a.c_ == nullptr; }
  friend bool operator==(const SharedPtr &a, const SharedPtr &b) noexcept { return a.get() == b.get(); }
  auto
  operator=(const SharedPtr &o) noexcept -> SharedPtr &
  {
    SharedPtr tmp{o};
    std::swap(c_, tmp.c_);
    return *this;
  }
  auto
  operator=(SharedPtr &&o) noexcept -> SharedPtr &
  {
    SharedPtr tmp{std::move(o)};
    std::swap(c_, tmp.c_);
    return *this;
  }
  ~SharedPtr() { Drop(); }

  void
  reset() noexcept
  {
    Drop();
    c_ = nullptr;
  }
  [[nodiscard]] T *get() const noexcept { return c_ ? c_->Ptr() : nullptr; }
  T &operator*() const noexcept { return *c_->Ptr(); }
  T *operator->() const noexcept { return c_->Ptr(); }
  explicit operator bool() const noexcept { return c_ != nullptr; }
  [[nodiscard]] long
  use_count() const noexcept
  {
    return c_ ? c_->strong.load(std::memory_order_relaxed) : 0;
  }

  // internal
  explicit SharedPtr(Ctrl<T> *c, int /*adopt*/) noexcept : c_{c} {}
  Ctrl<T> *c_{nullptr};

 private:
  void
  Drop() noexcept
  {
    if (!c_) return;
    if (c_->strong.fetch_sub(1, std::memory_order_acq_rel) == 1) {
      c_->Destroy();
      if (--c_->weak == 0) Ctrl<T>::Free(c_);
    }
  }
};

template <class T>
class WeakPtr
{
 public:
  constexpr WeakPtr() noexcept = default;
  WeakPtr(const SharedPtr<T> &s) noexcept : c_{s.c_}  // NOLINT
  {
    if (c_) ++c_->weak;
  }
  WeakPtr(const WeakPtr &o) noexcept
  {
    vs::plain_access(&o.c_, false);
    c_ = o.c_;
    if (c_) ++c_->weak;
  }
  WeakPtr(WeakPtr &&o) noexcept : c_{o.c_} { o.c_ = nullptr; }
  // NOTE: a weak_ptr object is plain data; reading/replacing its pointer is a visible step so that
  // unsynchronised use of one weak_ptr object by two threads is explored
  auto
  operator=(const WeakPtr &o) noexcept -> WeakPtr &
  {
    WeakPtr tmp{o};
    vs::plain_access(&c_, true);
    std::swap(c_, tmp.c_);
    return *this;
  }
  auto
  operator=(WeakPtr &&o) noexcept -> WeakPtr &
  {
    WeakPtr tmp{std::move(o)};
    vs::plain_access(&c_, true);
    std::swap(c_, tmp.c_);
    return *this;
  }
  auto
  operator=(const SharedPtr<T> &s) noexcept -> WeakPtr &
  {
    WeakPtr tmp{s};
    vs::plain_access(&c_, true);
    std::swap(c_, tmp.c_);
    return *this;
  }
  ~WeakPtr()
  {
    if (c_ && --c_->weak == 0) Ctrl<T>::Free(c_);
  }
  void
  reset() noexcept
  {
    WeakPtr tmp{};
    vs::plain_access(&c_, true);
    std::swap(c_, tmp.c_);
  }
  [[nodiscard]] bool
  expired() const noexcept
  {
    vs::plain_access(&c_, false);
    auto *c = c_;
    return !c || c->strong.load(std::memory_order_relaxed) == 0;
  }
  [[nodiscard]] long
  use_count() const noexcept
  {
    vs::plain_access(&c_, false);
    auto *c = c_;
    return c ? c->strong.load(std::memory_order_relaxed) : 0;
  }
  [[nodiscard]] SharedPtr<T>
  lock() const noexcept
  {
    vs::plain_access(&c_, false);
    auto *c = c_;
    if (!c) return {};
    long cur = c->strong.load(std::memory_order_relaxed);
    while (cur != 0) {
      if (c->strong.compare_exchange_strong(cur, cur + 1, std::memory_order_acq_rel,
                                            std::memory_order_relaxed)) {
        return SharedPtr<T>{c, 0};
      }
    }
    return {};
  }
  // unscheduled peek for harness oracles
  [[nodiscard]] bool RawExpired() const noexcept { return !c_ || c_->strong.Raw() == 0; }

 private:
  Ctrl<T> *c_{nullptr};
};

template <class T, class... Args>
SharedPtr<T>
MakeShared(Args &&...args)
{
  auto *c = new Ctrl<T>{};
  ::new (static_cast<void *>(c->buf)) T(std::forward<Args>(args)...);
  return SharedPtr<T>{c, 0};
}

// allocate_shared: control block and object in one block obtained from (a rebound copy of) the allocator, given back
// to it when the last strong or weak reference is gone - as the standard library does
template <class T, class A, class... Args>
SharedPtr<T>
AllocateShared(const A &a, Args &&...args)
{
  using CA = typename std::allocator_traits<A>::template rebind_alloc<Ctrl<T>>;
  CA ca{a};
  Ctrl<T> *c = std::allocator_traits<CA>::allocate(ca, 1);
  ::new (static_cast<void *>(c)) Ctrl<T>{};
  ::new (static_cast<void *>(c->buf)) T(std::forward<Args>(args)...);
  c->Side().astate = new CA{ca};
  c->Side().release = &Ctrl<T>::template ReleaseThroughAllocator<A>;
  return SharedPtr<T>{c, 0};
}

}  // namespace vshim

// Names the renamed tokens resolve to (the library always writes them with std:: qualification).
namespace std
{
template <class T>
using vshim_atomic = ::vshim::Atomic<T>;
template <class T>
using vshim_atomic_ref = ::vshim::AtomicRef<T>;
using vshim_atomic_char = ::vshim::Atomic<char>;
using vshim_atomic_schar = ::vshim::Atomic<signed char>;
using vshim_atomic_uchar = ::vshim::Atomic<unsigned char>;
using vshim_atomic_short = ::vshim::Atomic<short>;
using vshim_atomic_ushort = ::vshim::Atomic<unsigned short>;
using vshim_atomic_llong = ::vshim::Atomic<long long>;
using vshim_atomic_ullong = ::vshim::Atomic<unsigned long long>;
using vshim_atomic_int8_t = ::vshim::Atomic<int8_t>;
using vshim_atomic_uint8_t = ::vshim::Atomic<uint8_t>;
using vshim_atomic_int16_t = ::vshim::Atomic<int16_t>;
using vshim_atomic_uint16_t = ::vshim::Atomic<uint16_t>;
using vshim_atomic_intptr_t = ::vshim::Atomic<intptr_t>;
using vshim_atomic_ptrdiff_t = ::vshim::Atomic<ptrdiff_t>;
using vshim_atomic_intmax_t = ::vshim::Atomic<intmax_t>;
using vshim_atomic_uintmax_t = ::vshim::Atomic<uintmax_t>;
using vshim_atomic_int_fast8_t = ::vshim::Atomic<int_fast8_t>;
using vshim_atomic_uint_fast8_t = ::vshim::Atomic<uint_fast8_t>;
using vshim_atomic_int_fast16_t = ::vshim::Atomic<int_fast16_t>;
using vshim_atomic_uint_fast16_t = ::vshim::Atomic<uint_fast16_t>;
using vshim_atomic_int_fast32_t = ::vshim::Atomic<int_fast32_t>;
using vshim_atomic_uint_fast32_t = ::vshim::Atomic<uint_fast32_t>;
using vshim_atomic_int_fast64_t = ::vshim::Atomic<int_fast64_t>;
using vshim_atomic_uint_fast64_t = ::vshim::Atomic<uint_fast64_t>;
using vshim_atomic_int_least8_t = ::vshim::Atomic<int_least8_t>;
using vshim_atomic_uint_least8_t = ::vshim::Atomic<uint_least8_t>;
using vshim_atomic_int_least16_t = ::vshim::Atomic<int_least16_t>;
using vshim_atomic_uint_least16_t = ::vshim::Atomic<uint_least16_t>;
using vshim_atomic_int_least32_t = ::vshim::Atomic<int_least32_t>;
using vshim_atomic_uint_least32_t = ::vshim::Atomic<uint_least32_t>;
using vshim_atomic_int_least64_t = ::vshim::Atomic<int_least64_t>;
using vshim_atomic_uint_least64_t = ::vshim::Atomic<uint_least64_t>;
using vshim_atomic_signed_lock_free = ::vshim::Atomic<int64_t>;
using vshim_atomic_unsigned_lock_free = ::vshim::Atomic<uint64_t>;
// the C-style free functions of <atomic> for the instrumented type
template <class T> inline T atomic_load(const ::vshim::Atomic<T> *a) noexcept { return a->load(); }
template <class T> inline T atomic_load_explicit(const ::vshim::Atomic<T> *a, std::memory_order m) noexcept { return a->load(m); }
template <class T> inline void atomic_store(::vshim::Atomic<T> *a, std::type_identity_t<T> d) noexcept { a->store(d); }
template <class T> inline void atomic_store_explicit(::vshim::Atomic<T> *a, std::type_identity_t<T> d, std::memory_order m) noexcept { a->store(d, m); }
template <class T> inline T atomic_exchange(::vshim::Atomic<T> *a, std::type_identity_t<T> d) noexcept { return a->exchange(d); }
template <class T> inline T atomic_exchange_explicit(::vshim::Atomic<T> *a, std::type_identity_t<T> d, std::memory_order m) noexcept { return a->exchange(d, m); }
template <class T> inline bool atomic_compare_exchange_weak(::vshim::Atomic<T> *a, std::type_identity_t<T> *e, std::type_identity_t<T> d) noexcept { return a->compare_exchange_weak(*e, d); }
template <class T> inline bool atomic_compare_exchange_strong(::vshim::Atomic<T> *a, std::type_identity_t<T> *e, std::type_identity_t<T> d) noexcept { return a->compare_exchange_strong(*e, d); }
template <class T> inline bool atomic_compare_exchange_weak_explicit(::vshim::Atomic<T> *a, std::type_identity_t<T> *e, std::type_identity_t<T> d, std::memory_order s, std::memory_order f) noexcept { return a->compare_exchange_weak(*e, d, s, f); }
template <class T> inline bool atomic_compare_exchange_strong_explicit(::vshim::Atomic<T> *a, std::type_identity_t<T> *e, std::type_identity_t<T> d, std::memory_order s, std::memory_order f) noexcept { return a->compare_exchange_strong(*e, d, s, f); }
template <class T> inline T atomic_fetch_add(::vshim::Atomic<T> *a, std::type_identity_t<T> d) noexcept { return a->fetch_add(d); }
template <class T> inline T atomic_fetch_sub(::vshim::Atomic<T> *a, std::type_identity_t<T> d) noexcept { return a->fetch_sub(d); }
template <class T> inline T atomic_fetch_and(::vshim::Atomic<T> *a, std::type_identity_t<T> d) noexcept { return a->fetch_and(d); }
template <class T> inline T atomic_fetch_or(::vshim::Atomic<T> *a, std::type_identity_t<T> d) noexcept { return a->fetch_or(d); }
template <class T> inline T atomic_fetch_xor(::vshim::Atomic<T> *a, std::type_identity_t<T> d) noexcept { return a->fetch_xor(d); }
template <class T> inline T atomic_fetch_add_explicit(::vshim::Atomic<T> *a, std::type_identity_t<T> d, std::memory_order m) noexcept { return a->fetch_add(d, m); }
template <class T> inline T atomic_fetch_sub_explicit(::vshim::Atomic<T> *a, std::type_identity_t<T> d, std::memory_order m) noexcept { return a->fetch_sub(d, m); }
template <class T> inline T atomic_fetch_and_explicit(::vshim::Atomic<T> *a, std::type_identity_t<T> d, std::memory_order m) noexcept { return a->fetch_and(d, m); }
template <class T> inline T atomic_fetch_or_explicit(::vshim::Atomic<T> *a, std::type_identity_t<T> d, std::memory_order m) noexcept { return a->fetch_or(d, m); }
template <class T> inline T atomic_fetch_xor_explicit(::vshim::Atomic<T> *a, std::type_identity_t<T> d, std::memory_order m) noexcept { return a->fetch_xor(d, m); }
using vshim_atomic_bool = ::vshim::Atomic<bool>;
using vshim_atomic_int = ::vshim::Atomic<int>;
using vshim_atomic_uint = ::vshim::Atomic<unsigned>;
using vshim_atomic_long = ::vshim::Atomic<long>;
using vshim_atomic_ulong = ::vshim::Atomic<unsigned long>;
using vshim_atomic_size_t = ::vshim::Atomic<size_t>;
using vshim_atomic_int32_t = ::vshim::Atomic<int32_t>;
using vshim_atomic_uint32_t = ::vshim::Atomic<uint32_t>;
using vshim_atomic_int64_t = ::vshim::Atomic<int64_t>;
using vshim_atomic_uint64_t = ::vshim::Atomic<uint64_t>;
using vshim_atomic_uintptr_t = ::vshim::Atomic<uintptr_t>;
using vshim_atomic_flag = ::vshim::AtomicFlag;
using vshim_mutex = ::vshim::Mutex;
using vshim_shared_mutex = ::vshim::SharedMutex;
using vshim_condition_variable = ::vshim::CondVar;
using vshim_condition_variable_any = ::vshim::CondVar;
template <class T>
using vshim_shared_ptr = ::vshim::SharedPtr<T>;
template <class T>
using vshim_weak_ptr = ::vshim::WeakPtr<T>;
template <class T, class... Args>
inline ::vshim::SharedPtr<T>
vshim_make_shared(Args &&...args)
{
  return ::vshim::MakeShared<T>(std::forward<Args>(args)...);
}
template <class T, class A, class... Args>
inline ::vshim::SharedPtr<T>
vshim_allocate_shared(const A &a, Args &&...args)
{
  return ::vshim::AllocateShared<T>(a, std::forward<Args>(args)...);
}
inline void
vshim_atomic_thread_fence(std::memory_order mo) noexcept
{
  ::vshim::Fence(mo);
}
namespace this_thread
{
template <class Rep, class Period>
inline void
vshim_sleep_for(const std::chrono::duration<Rep, Period> &d)
{
  ::vshim::SleepFor(d);
}
inline std::thread::id
vshim_get_id() noexcept
{
  return ::vshim::GetId();
}
inline void
vshim_yield() noexcept
{
  ::vshim::Yield();
}
}  // namespace this_thread
}  // namespace std

inline void
vshim_mm_pause() noexcept
{
  ::vshim::Pause();
}

// ---- token renames (kept in sync with vshim_off.hpp) ------------------------------------
#define atomic vshim_atomic
#define atomic_bool vshim_atomic_bool
#define atomic_ref vshim_atomic_ref
#define atomic_char vshim_atomic_char
#define atomic_schar vshim_atomic_schar
#define atomic_uchar vshim_atomic_uchar
#define atomic_short vshim_atomic_short
#define atomic_ushort vshim_atomic_ushort
#define atomic_llong vshim_atomic_llong
#define atomic_ullong vshim_atomic_ullong
#define atomic_int8_t vshim_atomic_int8_t
#define atomic_uint8_t vshim_atomic_uint8_t
#define atomic_int16_t vshim_atomic_int16_t
#define atomic_uint16_t vshim_atomic_uint16_t
#define atomic_intptr_t vshim_atomic_intptr_t
#define atomic_ptrdiff_t vshim_atomic_ptrdiff_t
#define atomic_intmax_t vshim_atomic_intmax_t
#define atomic_uintmax_t vshim_atomic_uintmax_t
#define atomic_int_fast8_t vshim_atomic_int_fast8_t
#define atomic_uint_fast8_t vshim_atomic_uint_fast8_t
#define atomic_int_fast16_t vshim_atomic_int_fast16_t
#define atomic_uint_fast16_t vshim_atomic_uint_fast16_t
#define atomic_int_fast32_t vshim_atomic_int_fast32_t
#define atomic_uint_fast32_t vshim_atomic_uint_fast32_t
#define atomic_int_fast64_t vshim_atomic_int_fast64_t
#define atomic_uint_fast64_t vshim_atomic_uint_fast64_t
#define atomic_int_least8_t vshim_atomic_int_least8_t
#define atomic_uint_least8_t vshim_atomic_uint_least8_t
#define atomic_int_least16_t vshim_atomic_int_least16_t
#define atomic_uint_least16_t vshim_atomic_uint_least16_t
#define atomic_int_least32_t vshim_atomic_int_least32_t
#define atomic_uint_least32_t vshim_atomic_uint_least32_t
#define atomic_int_least64_t vshim_atomic_int_least64_t
#define atomic_uint_least64_t vshim_atomic_uint_least64_t
#define atomic_signed_lock_free vshim_atomic_signed_lock_free
#define atomic_unsigned_lock_free vshim_atomic_unsigned_lock_free
#define atomic_int vshim_atomic_int
#define atomic_uint vshim_atomic_uint
#define atomic_long vshim_atomic_long
#define atomic_ulong vshim_atomic_ulong
#define atomic_size_t vshim_atomic_size_t
#define atomic_int32_t vshim_atomic_int32_t
#define atomic_uint32_t vshim_atomic_uint32_t
#define atomic_int64_t vshim_atomic_int64_t
#define atomic_uint64_t vshim_atomic_uint64_t
#define atomic_uintptr_t vshim_atomic_uintptr_t
#define atomic_flag vshim_atomic_flag
#define atomic_thread_fence vshim_atomic_thread_fence
#define mutex vshim_mutex
#define shared_mutex vshim_shared_mutex
#define condition_variable vshim_condition_variable
#define condition_variable_any vshim_condition_variable_any
#define shared_ptr vshim_shared_ptr
#define weak_ptr vshim_weak_ptr
#define make_shared vshim_make_shared
#define allocate_shared vshim_allocate_shared
#define sleep_for vshim_sleep_for
#define get_id vshim_get_id
#define _mm_pause vshim_mm_pause
