// vs_engine.cpp — serialising scheduler, preemption-bounded explorer with state cache,
// deterministic arena with shadow state, happens-before event sets, fork-based job pool.
// Compiled WITHOUT the vshim token renames.
#include "vs_engine.hpp"

#include <linux/futex.h>
#include <poll.h>
#include <pthread.h>
#include <sched.h>
#include <signal.h>
#include <sys/mman.h>
#include <sys/syscall.h>
#include <sys/wait.h>
#include <unistd.h>

#include <algorithm>
#include <atomic>
#include <cassert>
#include <cerrno>
#include <chrono>
#include <cstdarg>
#include <cstdio>
#include <cstdlib>
#include <cstring>
#include <map>
#include <new>
#include <set>
#include <string>
#include <unordered_map>
#include <vector>

namespace vs
{
double
Now()
{
  return std::chrono::duration<double>(std::chrono::steady_clock::now().time_since_epoch()).count();
}

/*==============================================================================================
 * deterministic arena
 *============================================================================================*/
namespace
{
constexpr uintptr_t kArenaBase = 0x100000000000ULL;  // 2^44, below the 2^47 limit of MCSLock
constexpr size_t kArenaSize = 1UL << 26;             // 64 MiB per arena
constexpr int kArenas = kMaxThreads + 1;             // 0: controller scope, i+1: thread i

struct Block {
  uint32_t off;
  uint32_t size;
  uint8_t state;  // B_LIVE / B_FREED
};
struct Arena {
  char *base = nullptr;
  size_t bump = 0;
  Block *blocks = nullptr;
  size_t nblocks = 0, cap = 0;
};
Arena g_arena[kArenas];
bool g_arena_ready = false;
bool g_controller_scope = false;

thread_local int tl_tid = -1;       // virtual thread id, -1 otherwise
thread_local int tl_engine = 0;     // >0: inside engine/monitor code (allocations go to malloc)
thread_local int tl_quiet = 0;      // >0: NoSchedule block (hooks ignored, arena allocation kept)
thread_local uint64_t tl_quiet_ops = 0;  // operations inside the current NoSchedule block (a block that waits would never end)

struct EngineScope {
  EngineScope() { ++tl_engine; }
  ~EngineScope() { --tl_engine; }
};

void
ArenaInit()
{
  if (g_arena_ready) return;
  for (int i = 0; i < kArenas; ++i) {
    void *want = reinterpret_cast<void *>(kArenaBase + static_cast<uintptr_t>(i) * kArenaSize);
    void *p = mmap(want, kArenaSize, PROT_READ | PROT_WRITE,
                   MAP_PRIVATE | MAP_ANONYMOUS | MAP_NORESERVE | MAP_FIXED_NOREPLACE, -1, 0);
    if (p != want) {
      fprintf(stderr, "vs: cannot map arena %d at %p\n", i, want);
      _exit(2);
    }
    g_arena[i].base = static_cast<char *>(p);
    g_arena[i].cap = 1024;
    g_arena[i].blocks = static_cast<Block *>(malloc(sizeof(Block) * g_arena[i].cap));
  }
  g_arena_ready = true;
}

void
ArenaReset()
{
  for (auto &a : g_arena) {
    if (a.bump) memset(a.base, 0xAB, a.bump);
    a.bump = 0;
    a.nblocks = 0;
  }
}

inline int
ArenaIndexOf(const void *p)
{
  auto u = reinterpret_cast<uintptr_t>(p);
  if (u < kArenaBase || u >= kArenaBase + kArenas * kArenaSize) return -1;
  return static_cast<int>((u - kArenaBase) / kArenaSize);
}

void *
ArenaAlloc(int idx, size_t size, size_t align)
{
  auto &a = g_arena[idx];
  if (align < 16) align = 16;
  size_t off = (a.bump + align - 1) & ~(align - 1);
  size_t sz = size ? size : 1;
  if (off + sz > kArenaSize) {
    fprintf(stderr, "vs: arena %d exhausted\n", idx);
    _exit(2);
  }
  a.bump = off + sz;
  if (a.nblocks == a.cap) {
    a.cap *= 2;
    a.blocks = static_cast<Block *>(realloc(a.blocks, sizeof(Block) * a.cap));
  }
  a.blocks[a.nblocks++] = Block{static_cast<uint32_t>(off), static_cast<uint32_t>(sz), B_LIVE};
  return a.base + off;
}

Block *
FindBlock(int idx, const void *p)
{
  auto &a = g_arena[idx];
  size_t off = static_cast<const char *>(p) - a.base;
  size_t lo = 0, hi = a.nblocks;
  while (lo < hi) {
    size_t mid = (lo + hi) / 2;
    if (a.blocks[mid].off <= off) {
      lo = mid + 1;
    } else {
      hi = mid;
    }
  }
  if (lo == 0) return nullptr;
  Block *b = &a.blocks[lo - 1];
  if (off < static_cast<size_t>(b->off) + b->size) return b;
  return nullptr;
}

void OnArenaFree(const void *base, size_t size);

void
ArenaFree(void *p)
{
  int idx = ArenaIndexOf(p);
  Block *b = FindBlock(idx, p);
  if (!b || g_arena[idx].base + b->off != p || b->state != B_LIVE) {
    // invalid / double free of arena memory: deterministic report
    EngineScope es;
    Violate("C12", "BAD-FREE", "invalid or double free of arena block");
    return;
  }
  b->state = B_FREED;
  OnArenaFree(p, b->size);
  memset(p, 0xDD, b->size);
}

bool AllocPointsEnabled();

void *
AllocImpl(size_t size, size_t align)
{
  if (tl_engine == 0 && g_arena_ready) {
    if (tl_tid >= 0) {
      void *p = ArenaAlloc(tl_tid + 1, size, align);
      if (AllocPointsEnabled()) plain_access(p, true);  // allocation is a visible step
      return p;
    }
    if (g_controller_scope) return ArenaAlloc(0, size, align);
  }
  void *p = nullptr;
  if (align <= 16) {
    p = malloc(size ? size : 1);
  } else {
    if (posix_memalign(&p, align, size ? size : 1) != 0) p = nullptr;
  }
  if (!p) {
    fprintf(stderr, "vs: out of memory\n");
    _exit(2);
  }
  return p;
}

void
FreeImpl(void *p)
{
  if (!p) return;
  if (ArenaIndexOf(p) >= 0) {
    if (tl_tid >= 0 && tl_engine == 0 && AllocPointsEnabled()) plain_access(p, true);  // so is deallocation
    ArenaFree(p);
  } else {
    free(p);
  }
}
}  // namespace

void
ArenaControllerScope(bool on)
{
  g_controller_scope = on;
}

BlockInfo
BlockOf(const void *p)
{
  int idx = ArenaIndexOf(p);
  if (idx < 0) return {B_NONE, nullptr, 0, -2};
  Block *b = FindBlock(idx, p);
  if (!b) return {B_NONE, nullptr, 0, idx - 1};
  return {static_cast<BlockState>(b->state), g_arena[idx].base + b->off, b->size, idx - 1};
}

size_t
LiveBlocksOfSize(size_t size)
{
  size_t n = 0;
  for (auto &a : g_arena)
    for (size_t i = 0; i < a.nblocks; ++i)
      if (a.blocks[i].state == B_LIVE && a.blocks[i].size == size) ++n;
  return n;
}

size_t
LiveBlocksTotal()
{
  size_t n = 0;
  for (auto &a : g_arena)
    for (size_t i = 0; i < a.nblocks; ++i)
      if (a.blocks[i].state == B_LIVE) ++n;
  return n;
}

void
ForEachBlock(const std::function<void(const BlockInfo &)> &f)
{
  for (int k = 0; k < kArenas; ++k) {
    auto &a = g_arena[k];
    for (size_t i = 0; i < a.nblocks; ++i) {
      f(BlockInfo{static_cast<BlockState>(a.blocks[i].state), a.base + a.blocks[i].off,
                  a.blocks[i].size, k - 1});
    }
  }
}

}  // namespace vs

// global replacement of the allocation functions
void *operator new(size_t n) { return vs::AllocImpl(n, 16); }
void *operator new[](size_t n) { return vs::AllocImpl(n, 16); }
void *operator new(size_t n, std::align_val_t a) { return vs::AllocImpl(n, static_cast<size_t>(a)); }
void *operator new[](size_t n, std::align_val_t a) { return vs::AllocImpl(n, static_cast<size_t>(a)); }
void *operator new(size_t n, const std::nothrow_t &) noexcept { return vs::AllocImpl(n, 16); }
void *operator new[](size_t n, const std::nothrow_t &) noexcept { return vs::AllocImpl(n, 16); }
void operator delete(void *p) noexcept { vs::FreeImpl(p); }
void operator delete[](void *p) noexcept { vs::FreeImpl(p); }
void operator delete(void *p, size_t) noexcept { vs::FreeImpl(p); }
void operator delete[](void *p, size_t) noexcept { vs::FreeImpl(p); }
void operator delete(void *p, std::align_val_t) noexcept { vs::FreeImpl(p); }
void operator delete[](void *p, std::align_val_t) noexcept { vs::FreeImpl(p); }
void operator delete(void *p, size_t, std::align_val_t) noexcept { vs::FreeImpl(p); }
void operator delete[](void *p, size_t, std::align_val_t) noexcept { vs::FreeImpl(p); }
void operator delete(void *p, const std::nothrow_t &) noexcept { vs::FreeImpl(p); }
void operator delete[](void *p, const std::nothrow_t &) noexcept { vs::FreeImpl(p); }

namespace vs
{
/*==============================================================================================
 * scheduler state
 *============================================================================================*/
namespace
{
enum St : uint8_t { S_RUNNABLE = 0, S_BLOCKED = 1, S_FINISHED = 2, S_GATED = 3 };

struct SigCount {
  uint64_t sig;
  uint32_t n;
};

struct VThread {
  int id = 0;
  pthread_t pt{};
  std::atomic<int> go{0};
  St st = S_RUNNABLE;
  bool body_done = false;
  uint64_t digest = 0;
  uint64_t K = 0, F = 0, P = 0;
  std::vector<SigCount> sigs;
  std::vector<const void *> reads;
  ThreadStat stat{};
  const char *call = "";
  // pending op description (for deadlock reports)
  Op pend{};
  uint64_t pend_val = 0;
};

struct Loc {
  const void *addr;
  uint8_t size;
  uint64_t L;
};

struct ChoicePoint {
  uint16_t enabled;  // bit mask of enabled thread ids (for DEV points: 0b11)
  uint8_t chosen;
  int8_t cur;        // running thread, -1 none
  bool cur_enabled;
  bool is_dev;
  int16_t cost_before;
  uint64_t hash;     // state hash (0 if not computed)
};

struct Global {
  const Scenario *scn = nullptr;
  Config cfg;
  int n = 0;
  VThread *th = nullptr;  // allocated per execution; leaked together with its threads when an execution is abandoned
  std::vector<Loc> locs;
  uint64_t freed_sum = 0;  // commutative hash of freed blocks
  std::vector<ChoicePoint> trace;
  std::vector<uint8_t> prefix;
  int cost = 0;
  int devs = 0;
  int stall = 0;
  int cur = -1;
  uint64_t steps = 0;
  bool any_blocked = false;
  bool hashing = false;  // compute state hashes at choice points beyond the prefix
  std::atomic<int> done{0};
  bool fatal = false;
  bool poisoned = false;
  uint64_t abandoned = 0;
  bool replay_verbose = false;
  FILE *out = nullptr;
  bool diverged = false;
  bool hang = false;  // an execution stopped reaching scheduling points while burning CPU (watchdog)
  std::vector<Violation> viols;       // all violations of the whole exploration (deduplicated)
  std::vector<std::string> exec_notes;
  int exec_viol_count = 0;
  std::string last_outcome;
} G;

inline long
Futex(std::atomic<int> *addr, int op, int val)
{
  return syscall(SYS_futex, reinterpret_cast<int *>(addr), op, val, nullptr, nullptr, 0);
}

void
WakeThread(VThread &t)
{
  t.go.store(1, std::memory_order_seq_cst);
  Futex(&t.go, FUTEX_WAKE_PRIVATE, 1);
}

void
WaitSelf(VThread &t)
{
  while (t.go.load(std::memory_order_seq_cst) == 0) {
    Futex(&t.go, FUTEX_WAIT_PRIVATE, 0);
  }
  t.go.store(0, std::memory_order_seq_cst);
}

void
WakeController(int code)
{
  G.done.store(code, std::memory_order_seq_cst);
  Futex(&G.done, FUTEX_WAKE_PRIVATE, 1);
}

[[noreturn]] void
ParkForever()
{
  static std::atomic<int> never{0};
  for (;;) Futex(&never, FUTEX_WAIT_PRIVATE, 0);
}

inline uint64_t
Peek(const void *addr, uint8_t size)
{
  uint64_t v = 0;
  switch (size) {
    case 1:
      v = *static_cast<const volatile uint8_t *>(addr);
      break;
    case 2:
      v = *static_cast<const volatile uint16_t *>(addr);
      break;
    case 4:
      v = *static_cast<const volatile uint32_t *>(addr);
      break;
    case 8:
      v = *static_cast<const volatile uint64_t *>(addr);
      break;
    default:
      break;
  }
  return v;
}

Loc &
LocOf(const void *addr, uint8_t size)
{
  for (auto &l : G.locs)
    if (l.addr == addr) return l;
  G.locs.push_back(Loc{addr, size, 0});
  return G.locs.back();
}

uint64_t
StateHash()
{
  uint64_t h = 0x1234567;
  uint64_t sum = 0;
  for (auto &l : G.locs) {
    sum += Mix(Mix(reinterpret_cast<uint64_t>(l.addr), Peek(l.addr, l.size)), l.L);
  }
  h = Mix(h, sum);
  h = Mix(h, G.freed_sum);
  for (int k = 0; k < kArenas; ++k) h = Mix(h, g_arena[k].bump);
  for (int i = 0; i < G.n; ++i) {
    auto &t = G.th[i];
    h = Mix(h, t.st | (t.body_done ? 16U : 0U));
    if (t.st != S_FINISHED) {
      h = Mix(h, t.digest);
      h = Mix(h, t.K);
      h = Mix(h, t.F);
      h = Mix(h, t.P);
    }
  }
  h = Mix(h, static_cast<uint64_t>(G.cur + 1) | (static_cast<uint64_t>(G.devs) << 8) |
                 (static_cast<uint64_t>(G.stall) << 16));
  if (G.scn->digest) h = Mix(h, G.scn->digest());
  return h ? h : 1;
}

std::string
AddrName(const void *a)
{
  if (G.scn && G.scn->name_of) {
    auto s = G.scn->name_of(a);
    if (!s.empty()) return s;
  }
  char buf[64];
  int idx = ArenaIndexOf(a);
  if (idx >= 0) {
    snprintf(buf, sizeof buf, "heap[%d]+%zu", idx - 1,
             static_cast<size_t>(static_cast<const char *>(a) - g_arena[idx].base));
  } else {
    snprintf(buf, sizeof buf, "%p", a);
  }
  return buf;
}

const char *kKindName[] = {"load", "store", "rmw", "cas", "fence", "yield", "pread", "pwrite", "note"};
const char *kMoName[] = {"rlx", "cns", "acq", "rel", "acq_rel", "seq_cst"};

std::string
DescribeStuck()
{
  std::string s;
  for (int i = 0; i < G.n; ++i) {
    auto &t = G.th[i];
    if (t.st == S_FINISHED || t.st == S_GATED) continue;
    char buf[256];
    snprintf(buf, sizeof buf, " T%d[%s %s: waits at %s %s last=0x%lx]", i,
             t.st == S_BLOCKED ? "blocked" : "runnable", t.call, kKindName[t.pend.kind],
             t.pend.addr ? AddrName(t.pend.addr).c_str() : "-", t.pend_val);
    s += buf;
  }
  return s;
}

std::string
DeadlockProps()
{
  if (G.scn->deadlock_tags) {
    std::string t = G.scn->deadlock_tags();
    if (!t.empty()) return t;
  }
  return G.scn->deadlock_props;
}

void
RecordViolation(const char *props, const std::string &sig, const std::string &msg, bool fatal)
{
  ++G.exec_viol_count;
  if (G.replay_verbose && G.out) {
    fprintf(G.out, "!! VIOLATION [%s] %s : %s\n", props, sig.c_str(), msg.c_str());
  }
  for (auto &v : G.viols) {
    if (v.props == props && v.sig == sig) return;  // keep the first (least-cost) instance
  }
  if (static_cast<int>(G.viols.size()) >= G.cfg.max_violations) return;
  Violation v;
  v.props = props;
  v.sig = sig;
  v.msg = msg;
  v.fatal = fatal;
  v.cost = G.cost;
  v.choices.reserve(G.trace.size());
  for (auto &cp : G.trace) v.choices.push_back(cp.chosen);
  G.viols.push_back(std::move(v));
}

[[noreturn]] void
FatalStop()
{
  G.fatal = true;
  if (tl_tid >= 0) {
    WakeController(2);
    ParkForever();
  }
  // controller context
  throw std::runtime_error("vs fatal in controller context");
}

void
ClearSpin(VThread &t)
{
  t.sigs.clear();
}

// Decide the next thread to run. `cur` is the calling thread (or -1 for controller / finished).
int
Choose(int cur)
{
  for (;;) {
    uint16_t mask = 0;
    for (int i = 0; i < G.n; ++i)
      if (G.th[i].st == S_RUNNABLE) mask |= static_cast<uint16_t>(1U << i);
    if (mask == 0) {
      bool blocked = false;
      for (int i = 0; i < G.n; ++i) blocked |= (G.th[i].st == S_BLOCKED);
      if (!blocked) {
        // release the next gated wave: the lowest gated index and everything of the same wave
        int first = -1;
        for (int i = 0; i < G.n; ++i)
          if (G.th[i].st == S_GATED) {
            first = i;
            break;
          }
        if (first >= 0) {
          const int wave_end = (G.scn->gated_last && first < G.n - 1) ? G.n - 1 : G.n;
          for (int i = first; i < wave_end; ++i)
            if (G.th[i].st == S_GATED) G.th[i].st = S_RUNNABLE;
          G.stall = 0;
          continue;
        }
      }
      if (!blocked) return -1;  // everything finished
      // Every unfinished thread has been classified as waiting. The classification is a heuristic (identical
      // observations), so the threads are first released with fresh counters `stall_rounds` times; only threads that
      // come back without anybody having written anything are really waiting. Then the scenario's quiescence hook
      // may let the execution go on (it sees only *real* waits), otherwise this is a deadlock.
      if (G.stall >= G.cfg.stall_rounds && G.scn->on_quiescent && G.scn->on_quiescent()) {
        G.stall = 0;
        for (int i = 0; i < G.n; ++i)
          if (G.th[i].st == S_BLOCKED) {
            G.th[i].st = S_RUNNABLE;
            ClearSpin(G.th[i]);
            G.th[i].digest = Mix(G.th[i].digest, 0x57a7);
          }
        continue;
      }
      if (G.stall >= G.cfg.stall_rounds) {
        std::string labels;
        for (int i = 0; i < G.n; ++i)
          if (G.th[i].st == S_BLOCKED) {
            if (!labels.empty()) labels += "|";
            std::string c = G.th[i].call;
            labels += c.substr(0, c.find('@'));
          }
        RecordViolation(DeadlockProps().c_str(), "DEADLOCK:" + labels,
                        "no thread can make progress:" + DescribeStuck(), true);
        FatalStop();
      }
      ++G.stall;
      for (int i = 0; i < G.n; ++i)
        if (G.th[i].st == S_BLOCKED) {
          G.th[i].st = S_RUNNABLE;
          ClearSpin(G.th[i]);
          G.th[i].digest = Mix(G.th[i].digest, 0x5ca1ab1e);
        }
      continue;
    }
    const bool cur_enabled = cur >= 0 && (mask >> cur) & 1U;
    int def = cur_enabled ? cur : __builtin_ctz(mask);
    size_t idx = G.trace.size();
    int c = def;
    if (idx < G.prefix.size()) {
      c = G.prefix[idx];
      if (c >= G.n || !((mask >> c) & 1U)) {
        G.diverged = true;
        RecordViolation("INTERNAL", "DIVERGENCE",
                        "replayed choice is not enabled at point " + std::to_string(idx), true);
        FatalStop();
      }
    }
    ChoicePoint cp{};
    cp.enabled = mask;
    cp.chosen = static_cast<uint8_t>(c);
    cp.cur = static_cast<int8_t>(cur);
    cp.cur_enabled = cur_enabled;
    cp.is_dev = false;
    cp.cost_before = static_cast<int16_t>(G.cost);
    cp.hash = 0;
    if (G.hashing && idx >= G.prefix.size() && (mask & (mask - 1)) != 0) {
      G.cur = cur_enabled ? cur : -1;
      cp.hash = StateHash();
    }
    if (cur_enabled && c != cur) ++G.cost;
    G.trace.push_back(cp);
    return c;
  }
}

// Deviation choice: spurious failure of a weak CAS that would succeed.
bool
ChooseSpurious()
{
  // no choice point at all once the deviation budget is used up: this must not depend on whether a
  // prefix is being replayed, otherwise the kinds of the recorded points would shift
  if (G.cfg.dev_bound <= 0 || G.devs >= G.cfg.dev_bound) return false;
  size_t idx = G.trace.size();
  int c = 0;
  if (idx < G.prefix.size()) {
    c = G.prefix[idx];
    if (c > 1) {
      G.diverged = true;
      RecordViolation("INTERNAL", "DIVERGENCE", "replayed deviation choice out of range", true);
      FatalStop();
    }
  }
  ChoicePoint cp{};
  cp.enabled = 0b11;
  cp.chosen = static_cast<uint8_t>(c);
  cp.cur = static_cast<int8_t>(tl_tid);
  cp.cur_enabled = true;
  cp.is_dev = true;
  cp.cost_before = static_cast<int16_t>(G.cost);
  cp.hash = 0;
  if (G.hashing && idx >= G.prefix.size()) {
    G.cur = tl_tid;
    cp.hash = Mix(StateHash(), 0xdeu);
  }
  if (c == 1) {
    ++G.cost;
    ++G.devs;
  }
  G.trace.push_back(cp);
  return c == 1;
}

void
SwitchFrom(VThread &self, int next)
{
  WakeThread(G.th[next]);
  WaitSelf(self);
}

uint64_t
SigOf(const Op &op, uint64_t peek)
{
  uint64_t h = Mix(reinterpret_cast<uint64_t>(op.site), static_cast<uint64_t>(op.kind) | (static_cast<uint64_t>(op.size) << 8));
  if (op.kind != K_YIELD) {
    h = Mix(h, reinterpret_cast<uint64_t>(op.addr));
    h = Mix(h, peek);
    if (op.kind == K_CAS) h = Mix(h, op.expected);
  }
  return h;
}

// does this op (given the present memory) only observe, i.e. write nothing new?
bool
ObservesOnly(const Op &op, uint64_t peek)
{
  switch (op.kind) {
    case K_LOAD:
    case K_YIELD:
    case K_PLAIN_R:
      return true;
    case K_CAS:
      return peek != op.expected;  // would fail
    default:
      return false;
  }
}

struct Sentinel {
  int tid = -1;
  ~Sentinel();
};
thread_local Sentinel tl_sentinel;

void
ThreadFinished(int tid)
{
  EngineScope es;
  auto &t = G.th[tid];
  t.st = S_FINISHED;
  int next = Choose(-1);
  tl_tid = -1;
  if (next < 0) {
    WakeController(1);
  } else {
    WakeThread(G.th[next]);
  }
}

Sentinel::~Sentinel()
{
  if (tid >= 0) ThreadFinished(tid);
}

void *
Trampoline(void *arg)
{
  auto *t = static_cast<VThread *>(arg);
  tl_sentinel.tid = t->id;  // constructed first => destroyed after every library thread_local
  tl_tid = t->id;
  WaitSelf(*t);
  G.scn->body(t->id);
  {
    EngineScope es;
    t->body_done = true;
    t->call = "thread-exit";
  }
  return nullptr;
}

void
CrashHandler(int sig, siginfo_t *info, void *)
{
  if (tl_tid < 0) {
    const char m[] = "vs: fatal signal outside a virtual thread\n";
    (void)!write(2, m, sizeof m - 1);
    _exit(2);
  }
  ++tl_engine;
  char buf[160];
  snprintf(buf, sizeof buf, "signal %d at address %p in T%d (%s)", sig, info ? info->si_addr : nullptr,
           tl_tid, G.th[tl_tid].call);
  RecordViolation("CRASH", std::string("CRASH:sig") + std::to_string(sig), buf, true);
  FatalStop();
}

void
InstallHandlers()
{
  static bool done = false;
  if (done) return;
  done = true;
  struct sigaction sa {
  };
  sa.sa_sigaction = CrashHandler;
  sa.sa_flags = SA_SIGINFO | SA_NODEFER;
  sigemptyset(&sa.sa_mask);
  for (int s : {SIGSEGV, SIGBUS, SIGFPE, SIGILL, SIGABRT}) sigaction(s, &sa, nullptr);
}

void
PinToOneCore()
{
  static bool done = false;
  if (done) return;
  done = true;
  cpu_set_t set;
  if (sched_getaffinity(0, sizeof set, &set) != 0) return;
  if (CPU_COUNT(&set) <= 1) return;
  // keep the lowest allowed CPU unless VS_CPU is given
  int want = -1;
  if (const char *e = getenv("VS_CPU")) want = atoi(e);
  cpu_set_t one;
  CPU_ZERO(&one);
  if (want >= 0 && CPU_ISSET(want, &set)) {
    CPU_SET(want, &one);
  } else {
    for (int i = 0; i < CPU_SETSIZE; ++i)
      if (CPU_ISSET(i, &set)) {
        CPU_SET(i, &one);
        break;
      }
  }
  sched_setaffinity(0, sizeof one, &one);
}

void RestoreStatics();

// run one execution; returns false when a fatal violation stopped it
bool
RunOnce(const std::vector<uint8_t> &prefix)
{
  EngineScope es;
  G.prefix = prefix;
  G.trace.clear();
  G.locs.clear();
  G.freed_sum = 0;
  G.cost = 0;
  G.devs = 0;
  G.stall = 0;
  G.cur = -1;
  G.steps = 0;
  G.any_blocked = false;
  G.exec_viol_count = 0;
  G.done.store(0);
  ArenaReset();
  RestoreStatics();
  G.fatal = false;
  G.th = new VThread[kMaxThreads];
  for (int i = 0; i < G.n; ++i) {
    auto &t = G.th[i];
    t.id = i;
    t.go.store(0);
    t.st = S_RUNNABLE;
    t.body_done = false;
    t.digest = Mix(0xabcdef, static_cast<uint64_t>(i));
    t.K = t.F = t.P = 0;
    t.sigs.clear();
    t.reads.clear();
    t.stat = ThreadStat{};
    t.call = "start";
    t.pend = Op{};
    t.pend.kind = K_NOTE;
    t.pend_val = 0;
  }
  if (G.scn->gated_from >= 0)
    for (int i = G.scn->gated_from; i < G.n; ++i) G.th[i].st = S_GATED;
  if (G.scn->gated_last && G.n > 0) G.th[G.n - 1].st = S_GATED;
  {
    g_controller_scope = true;
    --tl_engine;
    if (G.scn->setup) G.scn->setup();
    ++tl_engine;
    g_controller_scope = false;
  }
  pthread_attr_t attr;
  pthread_attr_init(&attr);
  pthread_attr_setstacksize(&attr, 512 * 1024);
  if (G.scn->prologue) {
    pthread_t pt;
    auto fn = [](void *) -> void * {
      tl_tid = G.n;  // own arena, own fake thread id; not a scheduled thread
      ++tl_quiet;
      G.scn->prologue();
      return nullptr;  // thread-exit destructors of the library run here (still quiet)
    };
    if (pthread_create(&pt, &attr, fn, nullptr) != 0) {
      fprintf(stderr, "vs: pthread_create failed\n");
      _exit(2);
    }
    pthread_join(pt, nullptr);
  }
  for (int i = 0; i < G.n; ++i) {
    if (pthread_create(&G.th[i].pt, &attr, Trampoline, &G.th[i]) != 0) {
      fprintf(stderr, "vs: pthread_create failed\n");
      _exit(2);
    }
  }
  pthread_attr_destroy(&attr);
  int first = Choose(-1);
  if (first >= 0) {
    WakeThread(G.th[first]);
    // watchdog: a virtual thread that loops in plain code (e.g. over plain data another thread corrupted) never comes
    // back to the scheduler. The measure is the CPU time this process burns without reaching a scheduling point --
    // executions normally take well under a millisecond, waiting threads burn nothing, and a loaded machine does not
    // make CPU time pass faster.
    auto cpu_now = [] {
      timespec ts{};
      clock_gettime(CLOCK_PROCESS_CPUTIME_ID, &ts);
      return static_cast<double>(ts.tv_sec) + 1e-9 * static_cast<double>(ts.tv_nsec);
    };
    uint64_t s_last = __atomic_load_n(&G.steps, __ATOMIC_RELAXED);
    double c_last = cpu_now();
    while (G.done.load(std::memory_order_seq_cst) == 0) {
      timespec to{1, 0};
      syscall(SYS_futex, reinterpret_cast<int *>(&G.done), FUTEX_WAIT_PRIVATE, 0, &to, nullptr, 0);
      if (G.done.load(std::memory_order_seq_cst) != 0) break;
      const uint64_t s_now = __atomic_load_n(&G.steps, __ATOMIC_RELAXED);
      if (s_now != s_last) {
        s_last = s_now;
        c_last = cpu_now();
      } else if (cpu_now() - c_last > G.cfg.hang_cpu_s) {
        G.hang = true;
        RecordViolation(DeadlockProps().c_str(), "HANG",
                        "an execution burnt " + std::to_string(static_cast<int>(G.cfg.hang_cpu_s)) +
                            " s of CPU time without reaching a scheduling point (a loop without any atomic operation, e.g. over "
                            "corrupted plain data):" + DescribeStuck(),
                        true);
        G.fatal = true;
        break;
      }
    }
  }
  if (G.done.load() == 2 || G.fatal) {
    // the threads of this execution are parked for ever (deadlock / crash / horizon): abandon them
    // together with their control blocks; later executions use fresh ones
    ++G.abandoned;
    G.th = nullptr;
    return false;
  }
  for (int i = 0; i < G.n; ++i) pthread_join(G.th[i].pt, nullptr);
  G.last_outcome = G.scn->outcome ? G.scn->outcome() : std::string();
  {
    g_controller_scope = true;
    --tl_engine;
    if (G.scn->teardown) G.scn->teardown();
    ++tl_engine;
    g_controller_scope = false;
  }
  delete[] G.th;
  G.th = nullptr;
  return true;
}

}  // namespace

namespace
{
bool
AllocPointsEnabled()
{
  return G.scn != nullptr && G.scn->alloc_points && tl_quiet == 0;
}
}  // namespace

/*==============================================================================================
 * hooks
 *============================================================================================*/
bool
active()
{
  return tl_tid >= 0;
}

int
self()
{
  return tl_tid;
}

unsigned long
fake_thread_handle()
{
  if (tl_tid < 0 || G.scn == nullptr) return 0;
  if (tl_tid >= G.n) return 1000003UL;  // prologue thread
  return G.scn->handles[tl_tid];
}

__attribute__((noinline)) bool
pre(const Op &op_in)
{
  if (tl_tid >= 0 && tl_engine == 0 && tl_quiet > 0 && tl_tid < G.n && ++tl_quiet_ops > 3000000ULL) {
    // an indivisible block that does not terminate on its own (it waits for another thread)
    EngineScope es;
    tl_quiet_ops = 0;
    RecordViolation(DeadlockProps().c_str(), "HORIZON:indivisible-block",
                    "a call made inside an indivisible block does not return (it waits for a thread that cannot run):" + DescribeStuck(), true);
    FatalStop();
  }
  if (tl_tid < 0 || tl_engine > 0 || tl_quiet > 0) return false;
  EngineScope es;
  auto &t = G.th[tl_tid];
  Op op = op_in;
  op.site = __builtin_return_address(0);
  if (++G.steps > static_cast<uint64_t>(G.cfg.max_steps)) {
    RecordViolation(DeadlockProps().c_str(), "HORIZON", "execution exceeded the step horizon:" + DescribeStuck(), true);
    FatalStop();
  }
  if (G.scn->on_point) G.scn->on_point(t.id);
  const bool has_addr = op.addr != nullptr && op.size > 0 && op.kind != K_YIELD && op.kind != K_FENCE;
  uint64_t peek = has_addr ? Peek(op.addr, op.size) : 0;
  t.pend = op;
  t.pend_val = peek;
  // spin detection: would this be the nrep-th identical observation?
  bool observes = ObservesOnly(op, peek) || (op.kind == K_RMW && false);
  uint64_t sig = 0;
  if (observes && op.kind != K_PLAIN_R) {
    sig = SigOf(op, peek);
    uint32_t n = 0;
    for (auto &s : t.sigs)
      if (s.sig == sig) n = s.n;
    if (static_cast<int>(n) + 1 >= G.cfg.nrep) {
      t.st = S_BLOCKED;
      ++t.stat.blocked;
      G.any_blocked = true;
      t.digest = Mix(t.digest, 0xb10c);
    }
  }
  int next = Choose(t.id);
  if (next != t.id) {
    SwitchFrom(t, next);
    // resumed: we are RUNNABLE and were chosen to perform the pending operation now
    peek = has_addr ? Peek(op.addr, op.size) : 0;
    observes = ObservesOnly(op, peek);
    if (observes && op.kind != K_PLAIN_R) sig = SigOf(op, peek);
  }
  if (t.st != S_RUNNABLE) {
    // released collectively by Choose(): already set RUNNABLE there; defensive
    t.st = S_RUNNABLE;
  }
  if (observes && op.kind != K_PLAIN_R) {
    bool found = false;
    for (auto &s : t.sigs)
      if (s.sig == sig) {
        ++s.n;
        found = true;
      }
    if (!found) t.sigs.push_back(SigCount{sig, 1});
  }
  bool spurious = false;
  if (op.kind == K_CAS && op.weak && peek == op.expected) spurious = ChooseSpurious();
  return spurious;
}

__attribute__((noinline)) void
post(const Op &op_in, uint64_t observed, uint64_t written, bool wrote)
{
  if (tl_tid < 0 || tl_engine > 0 || tl_quiet > 0) return;
  EngineScope es;
  auto &t = G.th[tl_tid];
  Op op = op_in;
  op.site = t.pend.site;
  const bool has_addr = op.addr != nullptr && op.size > 0 && op.kind != K_YIELD && op.kind != K_FENCE;
  // heap shadow
  if (has_addr) {
    auto bi = BlockOf(op.addr);
    if (bi.st == B_FREED) {
      const char *props = G.scn->uaf_props ? G.scn->uaf_props(op.addr, bi) : "C12,C17";
      RecordViolation(props, "UAF", "atomic/plain access to freed block " + AddrName(op.addr) +
                                        " by T" + std::to_string(t.id) + " in " + t.call,
                      false);
    }
  }
  const bool eff_write = wrote && written != observed;
  // happens-before sets
  if (op.kind <= K_FENCE) {
    const uint8_t mo = wrote || op.kind != K_CAS ? op.mo : op.mo_fail;
    const bool acq = mo == 1 || mo == 2 || mo == 4 || mo == 5;
    const bool rel = mo == 3 || mo == 4 || mo == 5;
    if (op.kind == K_FENCE) {
      if (acq) t.K |= t.P;
      if (rel) t.F = t.K;
    } else if (has_addr) {
      Loc &l = LocOf(op.addr, op.size);
      switch (op.kind) {
        case K_LOAD:
          if (acq) {
            t.K |= l.L;
          } else {
            t.P |= l.L;
          }
          break;
        case K_STORE:
          l.L = rel ? t.K : t.F;
          break;
        case K_RMW:
        case K_CAS:
          if (acq) {
            t.K |= l.L;
          } else {
            t.P |= l.L;
          }
          if (wrote) l.L |= rel ? t.K : t.F;
          break;
        default:
          break;
      }
    }
  } else if (has_addr) {
    (void)LocOf(op.addr, op.size);  // plain tracked location: part of the state hash
  }
  // statistics / digests
  ++t.stat.ops;
  t.stat.last_addr = op.addr;
  t.stat.last_obs = observed;
  t.digest = Mix(Mix(t.digest, reinterpret_cast<uint64_t>(op.site) ^ (static_cast<uint64_t>(op.kind) << 60)),
                 Mix(reinterpret_cast<uint64_t>(op.addr), observed ^ (wrote ? (written * 0x9e3779b1ULL + 1) : 0)));
  if (has_addr && !eff_write && op.kind != K_PLAIN_W) {
    bool seen = false;
    for (auto *a : t.reads) seen |= (a == op.addr);
    if (!seen) t.reads.push_back(op.addr);
  }
  if (eff_write) {
    ++t.stat.eff_writes;
    G.stall = 0;
    ClearSpin(t);
    t.reads.clear();
    for (int i = 0; i < G.n; ++i) {
      if (i == t.id) continue;
      auto &u = G.th[i];
      if (u.st == S_FINISHED) continue;
      bool hit = false;
      for (auto *a : u.reads) hit |= (a == op.addr);
      if (!hit && u.pend.addr == op.addr) hit = true;
      if (hit) {
        ClearSpin(u);
        if (u.st == S_BLOCKED) {
          u.st = S_RUNNABLE;
          u.digest = Mix(u.digest, 0x3a4e);
        }
      }
    }
  }
  if (G.replay_verbose && G.out) {
    fprintf(G.out, "#%-4zu T%d %-6s %-22s obs=0x%lx", G.trace.size(), t.id, kKindName[op.kind],
            has_addr ? AddrName(op.addr).c_str() : (op.kind == K_YIELD ? (op.size ? "sleep" : "pause") : "-"),
            observed);
    if (op.kind == K_CAS) fprintf(G.out, " exp=0x%lx %s", op.expected, wrote ? "ok" : "FAIL");
    if (wrote) fprintf(G.out, " -> 0x%lx", written);
    if (op.kind <= K_FENCE) fprintf(G.out, " [%s]", kMoName[(wrote || op.kind != K_CAS) ? op.mo : op.mo_fail]);
    fprintf(G.out, "   (%s)\n", t.call);
  }
  if (G.scn->on_post) G.scn->on_post(t.id, op, observed, written, wrote);
}

namespace
{
void
OnArenaFree(const void *base, size_t size)
{
  // forget atomic locations inside the freed block; remember the free in the state hash
  auto lo = reinterpret_cast<uintptr_t>(base);
  for (size_t i = 0; i < G.locs.size();) {
    auto a = reinterpret_cast<uintptr_t>(G.locs[i].addr);
    if (a >= lo && a < lo + size) {
      G.locs[i] = G.locs.back();
      G.locs.pop_back();
    } else {
      ++i;
    }
  }
  G.freed_sum += Mix(lo, size);
}
}  // namespace

/*==============================================================================================
 * harness API
 *============================================================================================*/
void
Violate(const char *props, const std::string &sig, const std::string &msg)
{
  EngineScope es;
  RecordViolation(props, sig, msg, false);
}

void
ViolateFatal(const char *props, const std::string &sig, const std::string &msg)
{
  ++tl_engine;
  RecordViolation(props, sig, msg, true);
  FatalStop();
}

void
Boundary(uint64_t h)
{
  if (tl_tid < 0) return;
  auto &t = G.th[tl_tid];
  t.digest = Mix(h, static_cast<uint64_t>(t.id) + 77);
  ClearSpin(t);
  t.reads.clear();
  G.stall = 0;
}

void
Progress()
{
  G.stall = 0;
}

void
SetCall(const char *label)
{
  if (tl_tid >= 0) G.th[tl_tid].call = label;
}

ThreadStat &
Stat(int tid)
{
  return G.th[tid].stat;
}

bool
HasFinished(int tid)
{
  return G.th != nullptr && G.th[tid].st == S_FINISHED;
}

uint64_t &
HbKnown(int tid)
{
  return G.th[tid].K;
}

void
HbMark(int tid, int bit)
{
  G.th[tid].K |= (1ULL << bit);
}

void
plain_access(const void *addr, bool write)
{
  if (tl_tid < 0 || tl_engine > 0 || tl_quiet > 0) return;
  Op op{write ? K_PLAIN_W : K_PLAIN_R, 8, 0, 0, addr, nullptr, 0, false};
  pre(op);
  post(op, Peek(addr, 8), 0, false);
}

void
PlainPoint(const void *addr, bool write)
{
  Op op{write ? K_PLAIN_W : K_PLAIN_R, 8, 0, 0, addr, nullptr, 0, false};
  pre(op);
  // the access itself is performed by the caller right after; report with current contents
  post(op, Peek(addr, 8), 0, false);
}

size_t
TracePos()
{
  return G.trace.size();
}

int
Cost()
{
  return G.cost;
}

bool
Replaying()
{
  return G.replay_verbose;
}

NoSchedule::NoSchedule()
{
  if (tl_quiet++ == 0) tl_quiet_ops = 0;
}
NoSchedule::~NoSchedule() { --tl_quiet; }

void
Note(const char *s)
{
  if (G.replay_verbose && G.out) fprintf(G.out, "      -- T%d %s\n", tl_tid, s);
}

/*==============================================================================================
 * explorer
 *============================================================================================*/
}  // namespace vs

// writable static data of the library objects (sections renamed by the build, see vlib/driver.py)
extern "C" {
extern char __start_repo_data[] __attribute__((weak));
extern char __stop_repo_data[] __attribute__((weak));
extern char __start_repo_bss[] __attribute__((weak));
extern char __stop_repo_bss[] __attribute__((weak));
}

namespace vs
{
namespace
{
struct StaticImage {
  char *start = nullptr;
  size_t size = 0;
  char *copy = nullptr;
};
StaticImage g_images[2];
bool g_images_taken = false;

void
SnapshotStatics()
{
  if (g_images_taken) return;
  g_images_taken = true;
  char *ranges[2][2] = {{__start_repo_data, __stop_repo_data}, {__start_repo_bss, __stop_repo_bss}};
  for (int i = 0; i < 2; ++i) {
    if (ranges[i][0] == nullptr || ranges[i][1] == nullptr || ranges[i][1] <= ranges[i][0]) continue;
    g_images[i].start = ranges[i][0];
    g_images[i].size = static_cast<size_t>(ranges[i][1] - ranges[i][0]);
    g_images[i].copy = static_cast<char *>(malloc(g_images[i].size));
    memcpy(g_images[i].copy, g_images[i].start, g_images[i].size);
  }
}

void
RestoreStatics()
{
  for (auto &im : g_images)
    if (im.copy != nullptr) memcpy(im.start, im.copy, im.size);
}

void
Prepare(const Scenario &scn, const Config &cfg)
{
  SnapshotStatics();
  ArenaInit();
  InstallHandlers();
  PinToOneCore();
  G.scn = &scn;
  G.cfg = cfg;
  G.n = scn.nthreads;
  G.viols.clear();
  G.fatal = false;
}

/* Open-addressing state cache: 10 bytes per slot instead of ~50 for std::unordered_map, and a hard ceiling
 * (VERIF_CACHE_SLOTS_LOG2, default 26 = 64 Mi slots = 640 MiB per worker).  When the ceiling is reached new
 * states are simply no longer remembered: pruning needs a hit, so the search stays complete and only loses
 * sharing (reported as cache_saturated).  Sixteen workers with unbounded maps exhausted the 62 GB of the
 * sandbox in a thorough run; the OOM killer then ended a child (INTERNAL-ERROR). */
class StateCache
{
 public:
  StateCache()
  {
    const char *e = getenv("VERIF_CACHE_SLOTS_LOG2");
    int lg = e ? atoi(e) : 26;
    if (lg < 12) lg = 12;
    if (lg > 30) lg = 30;
    max_slots_ = size_t{1} << lg;
    Alloc(size_t{1} << 12);
  }
  ~StateCache() { Free(); }
  StateCache(const StateCache &) = delete;
  StateCache &operator=(const StateCache &) = delete;

  // returns pointer to the stored cost or nullptr
  int16_t *
  Find(uint64_t h)
  {
    size_t i = Mix(h) & (slots_ - 1);
    while (keys_[i] != 0) {
      if (keys_[i] == h) return &costs_[i];
      i = (i + 1) & (slots_ - 1);
    }
    return nullptr;
  }
  void
  Put(uint64_t h, int16_t cost)
  {
    if (int16_t *c = Find(h)) {
      *c = cost;
      return;
    }
    if ((size_ + 1) * 4 > slots_ * 3) {
      if (slots_ >= max_slots_ || !Grow()) {
        saturated_ = true;
        return;
      }
    }
    Insert(h, cost);
  }
  size_t size() const { return size_; }
  bool saturated() const { return saturated_; }

 private:
  static size_t Mix(uint64_t h) { return static_cast<size_t>((h ^ (h >> 29)) * 0x9E3779B97F4A7C15ULL >> 17); }
  void
  Insert(uint64_t h, int16_t cost)
  {
    size_t i = Mix(h) & (slots_ - 1);
    while (keys_[i] != 0) i = (i + 1) & (slots_ - 1);
    keys_[i] = h;
    costs_[i] = cost;
    ++size_;
  }
  bool
  Alloc(size_t n)
  {
    void *k = mmap(nullptr, n * sizeof(uint64_t), PROT_READ | PROT_WRITE, MAP_PRIVATE | MAP_ANONYMOUS, -1, 0);
    if (k == MAP_FAILED) return false;
    void *c = mmap(nullptr, n * sizeof(int16_t), PROT_READ | PROT_WRITE, MAP_PRIVATE | MAP_ANONYMOUS, -1, 0);
    if (c == MAP_FAILED) {
      munmap(k, n * sizeof(uint64_t));
      return false;
    }
    keys_ = static_cast<uint64_t *>(k);
    costs_ = static_cast<int16_t *>(c);
    slots_ = n;
    size_ = 0;
    return true;
  }
  void
  Free()
  {
    if (keys_ != nullptr) {
      munmap(keys_, slots_ * sizeof(uint64_t));
      munmap(costs_, slots_ * sizeof(int16_t));
      keys_ = nullptr;
    }
  }
  bool
  Grow()
  {
    uint64_t *ok = keys_;
    int16_t *oc = costs_;
    const size_t on = slots_;
    if (!Alloc(on * 2)) {
      keys_ = ok;
      costs_ = oc;
      slots_ = on;
      return false;
    }
    for (size_t i = 0; i < on; ++i)
      if (ok[i] != 0) Insert(ok[i], oc[i]);
    munmap(ok, on * sizeof(uint64_t));
    munmap(oc, on * sizeof(int16_t));
    return true;
  }
  uint64_t *keys_ = nullptr;
  int16_t *costs_ = nullptr;
  size_t slots_ = 0, size_ = 0, max_slots_ = 0;
  bool saturated_ = false;
};
}  // namespace

Result
Explore(const Scenario &scn, const Config &cfg)
{
  Result res;
  Prepare(scn, cfg);
  G.abandoned = 0;
  G.hang = false;
  const double t0 = Now();
  G.replay_verbose = false;
  G.out = nullptr;
  std::set<std::string> outcomes;
  std::vector<int> bounds;
  if (cfg.bound < 0) {
    bounds.push_back(1 << 14);
  } else if (cfg.iterate) {
    for (int b = 0; b <= cfg.bound; ++b) bounds.push_back(b);
  } else {
    bounds.push_back(cfg.bound);
  }
  bool out_of_budget = false;
  bool stop_all = false;
  for (int bound : bounds) {
    StateCache cache;
    std::vector<std::vector<uint8_t>> stack;
    stack.emplace_back();
    G.hashing = cfg.cache;
    bool complete = true;
    while (!stack.empty()) {
      if (Now() - t0 > cfg.budget_s || res.executions >= cfg.max_execs) {
        complete = false;
        out_of_budget = true;
        break;
      }
      std::vector<uint8_t> prefix = std::move(stack.back());
      stack.pop_back();
      const bool ok = RunOnce(prefix);
      ++res.executions;
      res.steps += G.steps;
      res.max_trace = std::max<uint64_t>(res.max_trace, G.trace.size());
      if (G.any_blocked) ++res.blocked_execs;
      if (!ok && (G.diverged || G.hang || G.abandoned > static_cast<uint64_t>(cfg.max_abandoned))) {
        complete = false;
        stop_all = true;
        break;  // too many stuck executions (each leaks its parked threads) or an internal error
      }
      if (ok && scn.outcome && outcomes.size() < 4096) outcomes.insert(G.last_outcome);
      if (res.sample_trace.empty() || (G.trace.size() > res.sample_trace.size() && res.executions < 64)) {
        res.sample_trace.clear();
        for (auto &cp : G.trace) res.sample_trace.push_back(cp.chosen);
      }
      if (cfg.stop_on_violation && !G.viols.empty()) {
        complete = false;
        break;
      }
      // generate alternatives
      bool pruned = false;
      for (size_t i = prefix.size(); i < G.trace.size(); ++i) {
        const ChoicePoint &cp = G.trace[i];
        if ((cp.enabled & (cp.enabled - 1)) == 0) continue;
        ++res.choice_points;
        if (cfg.cache && cp.hash != 0) {
          const int16_t *known = cache.Find(cp.hash);
          if (known != nullptr && *known <= cp.cost_before) {
            pruned = true;
            break;
          }
          cache.Put(cp.hash, static_cast<int16_t>(cp.cost_before));
        }
        for (int alt = 0; alt < 16; ++alt) {
          if (!((cp.enabled >> alt) & 1U) || alt == cp.chosen) continue;
          int nc = cp.cost_before;
          if (cp.is_dev) {
            if (alt == 1) ++nc;
          } else if (cp.cur_enabled && alt != cp.cur) {
            ++nc;
          }
          if (nc > bound) continue;
          std::vector<uint8_t> np;
          np.reserve(i + 1);
          for (size_t k = 0; k < i; ++k) np.push_back(G.trace[k].chosen);
          np.push_back(static_cast<uint8_t>(alt));
          stack.push_back(std::move(np));
        }
      }
      if (pruned) ++res.pruned;
    }
    res.states += cache.size();
    if (cache.saturated()) res.cache_saturated = true;
    if (stop_all) break;
    if (complete) {
      res.bound_completed = cfg.bound < 0 ? -1 : bound;
    } else {
      break;
    }
    if (cfg.stop_on_violation && !G.viols.empty()) break;
  }
  res.abandoned = G.abandoned;
  res.exhaustive = !stop_all && !out_of_budget &&
                   (res.bound_completed == (cfg.bound < 0 ? -1 : cfg.bound));
  res.outcomes.assign(outcomes.begin(), outcomes.end());
  res.violations = G.viols;
  res.wall_s = Now() - t0;
  return res;
}

Result
Replay(const Scenario &scn, const Config &cfg, const std::vector<uint8_t> &choices, FILE *out)
{
  Result res;
  Prepare(scn, cfg);
  G.replay_verbose = out != nullptr;
  G.out = out;
  G.hashing = false;
  const double t0 = Now();
  const bool ok = RunOnce(choices);
  res.executions = 1;
  res.steps = G.steps;
  res.max_trace = G.trace.size();
  res.violations = G.viols;
  for (auto &cp : G.trace) res.sample_trace.push_back(cp.chosen);
  if (ok && scn.outcome) res.outcomes.push_back(G.last_outcome);
  if (out) {
    fprintf(out, "== replay finished: %s, %zu scheduling points, cost %d, %zu violation(s)\n",
            ok ? "terminated" : "STOPPED", G.trace.size(), G.cost, G.viols.size());
  }
  res.wall_s = Now() - t0;
  res.exhaustive = false;
  return res;
}

/*==============================================================================================
 * JSON helpers
 *============================================================================================*/
std::string
JsonEscape(const std::string &s)
{
  std::string o;
  for (unsigned char c : s) {
    switch (c) {
      case '"':
        o += "\\\"";
        break;
      case '\\':
        o += "\\\\";
        break;
      case '\n':
        o += "\\n";
        break;
      case '\t':
        o += "\\t";
        break;
      default:
        if (c < 0x20) {
          char b[8];
          snprintf(b, sizeof b, "\\u%04x", c);
          o += b;
        } else {
          o += static_cast<char>(c);
        }
    }
  }
  return o;
}

std::string
ChoicesToString(const std::vector<uint8_t> &c)
{
  std::string s;
  for (auto v : c) s += static_cast<char>(v < 10 ? '0' + v : 'a' + (v - 10));
  return s;
}

std::vector<uint8_t>
ChoicesFromString(const std::string &s)
{
  std::vector<uint8_t> c;
  for (char ch : s) {
    if (ch >= '0' && ch <= '9') {
      c.push_back(static_cast<uint8_t>(ch - '0'));
    } else if (ch >= 'a' && ch <= 'f') {
      c.push_back(static_cast<uint8_t>(ch - 'a' + 10));
    }
  }
  return c;
}

std::string
ResultToJson(const Result &r)
{
  std::string s = "{";
  auto num = [&](const char *k, double v, bool last = false) {
    char b[96];
    if (v == static_cast<double>(static_cast<long long>(v))) {
      snprintf(b, sizeof b, "\"%s\":%lld%s", k, static_cast<long long>(v), last ? "" : ",");
    } else {
      snprintf(b, sizeof b, "\"%s\":%.4f%s", k, v, last ? "" : ",");
    }
    s += b;
  };
  num("executions", static_cast<double>(r.executions));
  num("steps", static_cast<double>(r.steps));
  num("choice_points", static_cast<double>(r.choice_points));
  num("states", static_cast<double>(r.states));
  num("pruned", static_cast<double>(r.pruned));
  num("blocked_execs", static_cast<double>(r.blocked_execs));
  num("max_trace", static_cast<double>(r.max_trace));
  num("abandoned", static_cast<double>(r.abandoned));
  num("cache_saturated", r.cache_saturated ? 1 : 0);
  num("bound_completed", r.bound_completed);
  s += std::string("\"exhaustive\":") + (r.exhaustive ? "true" : "false") + ",";
  num("wall_s", r.wall_s);
  num("n_outcomes", static_cast<double>(r.outcomes.size()));
  s += "\"outcomes\":[";
  for (size_t i = 0; i < r.outcomes.size() && i < 6; ++i) {
    if (i) s += ",";
    s += "\"" + JsonEscape(r.outcomes[i]) + "\"";
  }
  s += "],\"sample_trace\":\"" + ChoicesToString(r.sample_trace) + "\",\"violations\":[";
  for (size_t i = 0; i < r.violations.size(); ++i) {
    auto &v = r.violations[i];
    if (i) s += ",";
    s += "{\"props\":\"" + JsonEscape(v.props) + "\",\"sig\":\"" + JsonEscape(v.sig) + "\",\"msg\":\"" +
         JsonEscape(v.msg) + "\",\"fatal\":" + (v.fatal ? "true" : "false") +
         ",\"cost\":" + std::to_string(v.cost) + ",\"choices\":\"" + ChoicesToString(v.choices) + "\"}";
  }
  s += "]}";
  return s;
}

/*==============================================================================================
 * job pool
 *============================================================================================*/
std::vector<JobResult>
RunJobs(const std::vector<Job> &jobs, int nproc, double hard_timeout_s, double global_deadline_s,
        const std::function<std::string(const Job &)> &fn)
{
  struct Slot {
    pid_t pid = -1;
    int fd = -1;
    size_t job = 0;
    double started = 0;
    std::string buf;
  };
  std::vector<JobResult> results(jobs.size());
  for (size_t i = 0; i < jobs.size(); ++i) {
    results[i].job = jobs[i];
    results[i].status = 3;  // not run
  }
  std::vector<Slot> slots(static_cast<size_t>(nproc));
  // available CPUs
  std::vector<int> cpus;
  {
    cpu_set_t set;
    if (sched_getaffinity(0, sizeof set, &set) == 0)
      for (int i = 0; i < CPU_SETSIZE; ++i)
        if (CPU_ISSET(i, &set)) cpus.push_back(i);
    if (cpus.empty()) cpus.push_back(0);
  }
  size_t next = 0;
  int running = 0;
  const double t0 = Now();
  auto finish = [&](Slot &s, bool killed) {
    // drain
    char tmp[65536];
    for (;;) {
      ssize_t r = read(s.fd, tmp, sizeof tmp);
      if (r > 0) {
        s.buf.append(tmp, static_cast<size_t>(r));
      } else if (r < 0 && errno == EINTR) {
        continue;
      } else {
        break;
      }
    }
    close(s.fd);
    int st = 0;
    waitpid(s.pid, &st, 0);
    auto &jr = results[s.job];
    jr.json = s.buf;
    if (killed) {
      jr.status = 2;
      jr.err = "hard timeout: child killed";
    } else if (WIFEXITED(st) && (WEXITSTATUS(st) == 0 || WEXITSTATUS(st) == 1) && !s.buf.empty()) {
      jr.status = WEXITSTATUS(st);
    } else {
      jr.status = 2;
      jr.err = "child ended abnormally (status " + std::to_string(st) + ")";
    }
    s.pid = -1;
    s.fd = -1;
    s.buf.clear();
    --running;
  };
  while (next < jobs.size() || running > 0) {
    // launch
    for (size_t k = 0; k < slots.size() && next < jobs.size(); ++k) {
      auto &s = slots[k];
      if (s.pid != -1) continue;
      if (Now() - t0 > global_deadline_s) {
        next = jobs.size();  // stop launching: remaining stay "not run"
        break;
      }
      int pfd[2];
      if (pipe(pfd) != 0) {
        perror("pipe");
        _exit(2);
      }
      fflush(stdout);
      fflush(stderr);
      pid_t pid = fork();
      if (pid == 0) {
        close(pfd[0]);
        for (auto &o : slots)
          if (o.fd >= 0) close(o.fd);
        cpu_set_t one;
        CPU_ZERO(&one);
        CPU_SET(cpus[k % cpus.size()], &one);
        sched_setaffinity(0, sizeof one, &one);
        std::string out;
        int code = 0;
        try {
          out = fn(jobs[next]);
        } catch (const std::exception &e) {
          out = std::string("{\"internal_error\":\"") + JsonEscape(e.what()) + "\"}";
          code = 2;
        }
        size_t off = 0;
        while (off < out.size()) {
          ssize_t w = write(pfd[1], out.data() + off, out.size() - off);
          if (w <= 0) break;
          off += static_cast<size_t>(w);
        }
        close(pfd[1]);
        _exit(code);
      }
      close(pfd[1]);
      s.pid = pid;
      s.fd = pfd[0];
      s.job = next++;
      s.started = Now();
      ++running;
    }
    if (running == 0) continue;
    std::vector<pollfd> pfds;
    std::vector<size_t> idx;
    for (size_t k = 0; k < slots.size(); ++k)
      if (slots[k].pid != -1) {
        pfds.push_back(pollfd{slots[k].fd, POLLIN, 0});
        idx.push_back(k);
      }
    poll(pfds.data(), pfds.size(), 200);
    for (size_t j = 0; j < pfds.size(); ++j) {
      auto &s = slots[idx[j]];
      if (pfds[j].revents & (POLLIN | POLLHUP)) {
        char tmp[65536];
        ssize_t r = read(s.fd, tmp, sizeof tmp);
        if (r > 0) {
          s.buf.append(tmp, static_cast<size_t>(r));
        } else if (r == 0) {
          finish(s, false);
        }
      } else if (Now() - s.started > hard_timeout_s) {
        kill(s.pid, SIGKILL);
        finish(s, true);
      }
    }
  }
  return results;
}

}  // namespace vs
