// vs_engine.hpp — harness-facing API of the scheduler / explorer / job pool.
// Plain C++ (include after vshim_off.hpp).
#pragma once
#include <cstdint>
#include <functional>
#include <string>
#include <vector>

#include "vs.hpp"

namespace vs
{
constexpr int kMaxThreads = 12;

// heap shadow
enum BlockState { B_NONE = 0, B_LIVE = 1, B_FREED = 2 };
struct BlockInfo { BlockState st; const void *base; size_t size; int owner; };

struct Scenario {
  int nthreads = 0;
  // the last virtual thread becomes runnable only after all others have finished (epilogue)
  bool gated_last = false;
  // threads with index >= gated_from become runnable only after all threads below have finished
  // (a second wave); -1: none
  int gated_from = -1;
  // controller context, deterministic arena active: build the objects under test, reset monitors
  std::function<void()> setup;
  // optional: library calls that prepare the scenario (e.g. a sequential prefix). Runs to completion in a thread of
  // its own before any virtual thread starts, without scheduling points; its thread-exit destructors run too,
  // so no library thread-local state of the controller is ever created
  std::function<void()> prologue;
  // body of virtual thread `tid` (library TLS destructors run under the scheduler afterwards)
  std::function<void(int)> body;
  // controller context after every virtual thread has finished (or after a fatal stop: not called)
  std::function<void()> teardown;
  // digest of harness/monitor ghost state, folded into the state hash
  std::function<uint64_t()> digest;
  // called after every operation of a virtual thread (no scheduling inside)
  std::function<void(int, const Op &, uint64_t, uint64_t, bool)> on_post;
  // called in the context of the running thread at each of its scheduling points (before choice)
  std::function<void(int)> on_point;
  // symbolic name of an address for traces (may be empty)
  std::function<std::string(const void *)> name_of;
  // outcome string of a finished execution (distinct outcomes are counted as a vacuity guard)
  std::function<std::string()> outcome;
  // property tags for an access to a freed block (default "C12,C17"); "OBS" = observation only
  std::function<const char *(const void *, const BlockInfo &)> uaf_props;
  // property tags of a deadlock / step-horizon violation (default "C02")
  const char *deadlock_props = "C02";
  // optional: called (scheduler context, no library calls, no instrumented operations) when every unfinished thread
  // waits. Returns true if it changed harness state some waiting thread polls (e.g. released "stay alive" threads);
  // all waiting threads are then made runnable again and no stall round is counted
  std::function<bool()> on_quiescent;
  // optional: property tags of a deadlock decided from the monitor state at the moment of the deadlock
  // (overrides deadlock_props when it returns a non-empty string)
  std::function<std::string()> deadlock_tags;
  // make every allocation / deallocation of a virtual thread a scheduling point (gives interleavings
  // inside code that touches plain shared data between its atomic steps)
  bool alloc_points = false;
  // fake std::thread::id handles
  unsigned long handles[kMaxThreads] = {1, 2, 3, 4, 5, 6, 7, 8, 9, 10, 11, 12};
};

struct Config {
  int bound = 2;            // max preemptions+deviations (unified cost); <0 = unbounded
  bool iterate = true;      // run bounds 0..bound in turn (first counterexample has least cost)
  int dev_bound = 0;        // max spurious weak-CAS failures per execution
  bool cache = true;        // state cache
  int nrep = 3;             // identical observations before a thread is considered spinning
  int stall_rounds = 2;     // collective releases without progress before DEADLOCK
  int max_steps = 20000;    // per-execution horizon
  double budget_s = 1e9;    // wall-clock budget for this exploration
  int max_violations = 8;   // distinct violation signatures to keep
  bool stop_on_violation = false;
  uint64_t max_execs = ~0ULL;
  double hang_cpu_s = 10;   // CPU seconds without a scheduling point before an execution counts as hung
  int max_abandoned = 400;  // stuck executions (deadlock/crash) tolerated before the search of a program stops
};

struct Violation {
  std::string props;  // comma separated property ids
  std::string sig;    // short stable signature (used for known-finding matching and dedup)
  std::string msg;    // full message
  std::vector<uint8_t> choices;
  int cost = 0;
  bool fatal = false;
};

struct Result {
  uint64_t executions = 0;
  uint64_t steps = 0;          // transitions executed (all executions)
  uint64_t choice_points = 0;  // points with >1 alternative
  uint64_t states = 0;         // distinct hashed states (cache entries, summed over bounds)
  uint64_t pruned = 0;         // executions whose tail was covered by the cache
  uint64_t blocked_execs = 0;  // executions in which some thread had to wait
  uint64_t max_trace = 0;
  uint64_t abandoned = 0;      // executions stopped by a deadlock / crash / horizon (their threads are leaked)
  int bound_completed = -2;    // largest bound fully explored (-1: unbounded completed)
  bool exhaustive = false;     // requested bound(s) completed
  bool cache_saturated = false;  // the state cache reached its ceiling: search still complete, less sharing
  std::vector<std::string> outcomes;
  std::vector<Violation> violations;
  std::vector<uint8_t> sample_trace;
  double wall_s = 0;
};

// ---- exploration (call from a single-threaded process; pins the process to one core) ----
Result Explore(const Scenario &scn, const Config &cfg);
// run one execution following `choices` exactly; prints a step-by-step trace to `out` when verbose
Result Replay(const Scenario &scn, const Config &cfg, const std::vector<uint8_t> &choices,
              FILE *out);

// ---- called from virtual threads / monitors ----
// report a violation of the given properties in the current execution
void Violate(const char *props, const std::string &sig, const std::string &msg);
// fatal variant: the execution cannot continue (exploration of this job stops)
[[noreturn]] void ViolateFatal(const char *props, const std::string &sig, const std::string &msg);
// API-call boundary of the calling virtual thread: `h` digests everything the thread knows
void Boundary(uint64_t h);
// mark progress without boundary (e.g. harness-level polling)
void Progress();
// label of the API call the calling virtual thread is executing (deadlock reports)
void SetCall(const char *label);
// marks "body returned": thread begins its exit cleanup
// per-thread counters maintained by the engine (reset by the harness)
struct ThreadStat {
  uint32_t eff_writes;   // effective atomic writes since last reset
  uint32_t ops;          // atomic operations since last reset
  uint32_t blocked;      // times the thread was put to wait since last reset
  const void *last_addr; // address of last atomic op
  uint64_t last_obs;     // value observed by last atomic op
};
ThreadStat &Stat(int tid);
// has the virtual thread finished (body returned and all thread-exit destructors have run)?
bool HasFinished(int tid);
// happens-before event sets (bit masks over harness-defined marked events)
uint64_t &HbKnown(int tid);              // K_t
void HbMark(int tid, int event_bit);     // K_t |= bit
// harness plain-data access with scheduling point
void PlainPoint(const void *addr, bool write);
// current trace position (number of scheduling points so far)
size_t TracePos();
int Cost();
bool Replaying();
// RAII: operations of the calling virtual thread are executed without scheduling points and without
// being reported (an indivisible block, e.g. a long stall of the other threads or an oracle read)
struct NoSchedule {
  NoSchedule();
  ~NoSchedule();
};
// trace annotation (shown in replay output)
void Note(const char *s);

// deterministic arena: controller-context switch
void ArenaControllerScope(bool on);
// heap shadow queries
BlockInfo BlockOf(const void *p);
size_t LiveBlocksOfSize(size_t size);
size_t LiveBlocksTotal();
void ForEachBlock(const std::function<void(const BlockInfo &)> &f);

// hashing helper
inline uint64_t
Mix(uint64_t h, uint64_t v)
{
  h ^= v + 0x9e3779b97f4a7c15ULL + (h << 6) + (h >> 2);
  h *= 0xff51afd7ed558ccdULL;
  h ^= h >> 33;
  return h;
}

// ---- job pool -------------------------------------------------------------------------------
struct Job {
  std::string name;   // e.g. program text
  std::string param;  // free-form parameters (config name)
};
struct JobResult {
  Job job;
  int status = 0;  // 0 ok, 1 violation(s), 2 internal error / timeout / crash
  std::string json;  // result object produced by the child
  std::string err;
};
// Runs fn(job) in forked children (<= nproc at a time, each pinned to one core). fn returns a JSON
// object string. hard_timeout_s kills a child that does not finish.
std::vector<JobResult> RunJobs(const std::vector<Job> &jobs, int nproc, double hard_timeout_s,
                               double global_deadline_s,
                               const std::function<std::string(const Job &)> &fn);

std::string JsonEscape(const std::string &s);
std::string ResultToJson(const Result &r);
std::string ChoicesToString(const std::vector<uint8_t> &c);
std::vector<uint8_t> ChoicesFromString(const std::string &s);
double Now();

}  // namespace vs
