// vs.hpp — core API of the serialising scheduler / explorer ("vsched").
// Included by vshim.hpp (and therefore by every repo source) and by harness code.
// This header must not use any token that vshim.hpp renames.
#pragma once
#include <cstddef>
#include <cstdint>

namespace vs
{
enum Kind : uint8_t {
  K_LOAD = 0,
  K_STORE = 1,
  K_RMW = 2,    // unconditional read-modify-write (exchange, fetch_*)
  K_CAS = 3,    // compare-exchange (strong or weak)
  K_FENCE = 4,
  K_YIELD = 5,  // _mm_pause / sleep_for / yield
  K_PLAIN_R = 6,
  K_PLAIN_W = 7,
  K_NOTE = 8,  // harness marker (API boundary); not an operation of the library
};

// memory orders use the numeric values of std::memory_order (relaxed=0 .. seq_cst=5)
struct Op {
  Kind kind;
  uint8_t size;     // bytes of the object (1,2,4,8)
  uint8_t mo;       // success / only order
  uint8_t mo_fail;  // failure order for CAS
  const void *addr;
  const void *site;  // call site (return address inside the calling library function)
  uint64_t expected; // CAS: expected value
  bool weak;         // CAS: compare_exchange_weak
};

// --- called by the instrumented primitives -------------------------------------------------
// Scheduling point before an operation. May hand the CPU to another virtual thread.
// For a weak CAS returns true when the explorer injects a spurious failure.
bool pre(const Op &op);
// Report of the operation just performed (no scheduling happens here).
// `observed` = value read (load / RMW old value / CAS observed), `written` = value stored.
void post(const Op &op, uint64_t observed, uint64_t written, bool wrote);

// scheduling point + report for an access to plain (non-atomic) shared data that the instrumentation
// layer knows about (the pointer field of a weak_ptr, an allocation or deallocation)
void plain_access(const void *addr, bool write);

// true when the caller is a virtual thread under the scheduler
bool active();
// id of the running virtual thread (0..n-1), -1 for the controller
int self();

// fake thread handle used to build std::thread::id (harness sets it per virtual thread)
unsigned long fake_thread_handle();

}  // namespace vs
