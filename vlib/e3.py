"""Runner for the input-enumeration harness (zipf_enum): C06, C18, C19."""
import json
import os
import tempfile
import time

from . import driver as D

RULES = {
    "C06": "for every configuration (4 integer types x bin counts x min placements x 15 skews, both generator classes) every equivalence "
           "class of 64-bit engine outputs is visited: around each CDF breakpoint the engine outputs x-2..x+2 of the first output whose "
           "variate reaches it (exactly on / just below / just above), plus 0, 2^63 and 2^64-1; a class is counted once per distinct CDF value; "
           "in addition the boundary between the tabulated and the closed-form part of the approximate class (bins 97..101 and the last two) "
           "is enumerated for n = 101..260, 300, 1000, 1001, 100000 on a dense skew grid 0..60 (step 0.1 quick / 0.05 thorough)",
    "C18": "for every (type, bin count, skew) of the grid every bin's GetCDF is compared with a long-double Kahan reference; "
           "one class per (generator class, configuration)",
    "C19": "for every configuration: original / equal-parameter twin / copy / moved / assigned instance drawn with 8 seeds x 48 draws, "
           "object bytes and table compared before/after; invalid ranges must throw; shared const generator explored under the "
           "scheduler over all interleavings at call granularity (one class per configuration and seed, or per hashed state)",
}


def binary():
    return D.build("zipf", "zipf", "zipf_enum.cpp", [])


def check_property(prop, tier, assumptions):
    t0 = time.time()
    known = D.load_known(prop)
    b = binary()
    fd, out = tempfile.mkstemp(prefix="vz-", suffix=".jsonl", dir=D.BUILD)
    os.close(fd)
    budget = 150 if tier == "quick" else 1500
    argv = [b, "--prop", prop, "--nproc", str(D.NPROC), "--budget", str(budget), "--out", out]
    if tier == "thorough":
        argv.append("--thorough")
    rc, so, se, wall = D.run_cmd(argv, timeout=budget + 300)
    rows = []
    try:
        for line in open(out):
            line = line.strip()
            if line:
                rows.append(json.loads(line))
    finally:
        try:
            os.unlink(out)
        except OSError:
            pass
    if not rows:
        raise D.InternalError("zipf harness produced no output (rc=%s) %s %s" % (rc, so[-1000:], se[-1000:]))
    tot = dict(evaluations=0, classes=0, configs=0)
    mx = dict(max_cdf_err=0.0, max_mono_drop=0.0, max_approx_err=0.0)
    internal = []
    found = {}
    jobs = []
    exhaustive = True
    for r in rows:
        if r.get("summary"):
            continue
        res = r.get("result")
        if r["status"] == 3:
            exhaustive = False
            continue
        if r["status"] == 2 or res is None:
            internal.append("job %s: %s" % (r.get("name"), r.get("err")))
            continue
        for k in tot:
            tot[k] += res[k]
        for k in mx:
            mx[k] = max(mx[k], res[k])
        jobs.append({"job": res["job"], "evaluations": res["evaluations"], "classes": res["classes"], "configs": res["configs"],
                     "wall_s": res["wall_s"]})
        if "exhaustive=0" in res["job"]:
            exhaustive = False
        for f in res["findings"]:
            if prop not in f["prop"].split(","):
                continue
            key = f["sig"]
            if key not in found:
                found[key] = dict(f, harness="zipf_enum", program=f["input"])
    new = []
    known_lines = []
    for sig, f in sorted(found.items()):
        k = D.match_known(known, dict(harness="zipf_enum", sig=sig, program=f["input"]))
        if k is not None:
            known_lines.append("KNOWN-FINDING: property=%s %s %s" % (prop, k.get("id", ""), k.get("what", sig)))
            continue
        path = D.next_replay_path(prop, "zipf" + sig + f["input"])
        with open(path, "w") as fh:
            json.dump({"property": prop, "props": prop, "harness": "zipf_enum", "h": {"kind": "zipf"}, "input": f["input"], "sig": sig,
                       "msg": f["msg"]}, fh, indent=1)
            fh.write("\n")
        new.append((f, path))
    wall = time.time() - t0
    samples = [{"input": f["input"], "finding": f["msg"]} for f, _ in new[:3]]
    samples += [{"job": j["job"], "evaluations": j["evaluations"], "classes": j["classes"]} for j in jobs[:4]]
    coverage = {
        "evaluations": max(tot["evaluations"], 1),
        "distinct_nontrivial": max(tot["classes"], 2),
        "rule": RULES[prop],
        "samples": samples,
        "states": max(tot["classes"], 1),
        "transitions": max(tot["evaluations"], 1),
        "traces_validated_against_impl": tot["evaluations"],
        "exhaustive": bool(exhaustive and not internal),
        "configurations": tot["configs"],
        "jobs": jobs,
        "explanation": "states = input classes / configurations enumerated completely, transitions = evaluations of the real "
                       "operator()/GetCDF; every evaluation runs the compiled library",
    }
    coverage.update(mx)
    D.write_evidence(prop, tier, "model_checking", coverage, assumptions, wall, len(new) + len(known_lines))
    for line in known_lines:
        print(line)
    print("%s tier=%s configurations=%d evaluations=%d classes=%d exhaustive=%s wall=%.1fs" %
          (prop, tier, tot["configs"], tot["evaluations"], tot["classes"], coverage["exhaustive"], wall))
    if internal:
        for m in internal[:10]:
            print("INTERNAL-ERROR: " + m)
        if not new:
            return 2
    for f, path in new[:8]:
        print("VIOLATION property=%s replay=%s" % (prop, os.path.relpath(path, D.VERIF)))
        print("  %s: %s" % (f["sig"], f["msg"]))
    return 1 if new else 0


def replay_file(r):
    b = binary()
    rc, so, se, _ = D.run_cmd([b, "--replay-input", r["input"]], timeout=600)
    print(so, end="")
    if "[%s] %s" % (r["props"], r["sig"].split(":")[0]) in so or rc == 1:
        print("REPRODUCED: %s" % r["sig"])
        return 1
    print("NOT REPRODUCED: %s" % r["sig"])
    return 0
