"""Per-property check specifications (what is explored in which tier)."""

TRUST = [
    "instrumentation layer engine/vshim.hpp is behaviour-preserving (audited by ./check --setup smoke comparison)",
    "executions are sequentially consistent; weak-memory effects are covered only through the declared-order happens-before analysis (C08)",
    "a thread that repeats an identical observation RETRY+2 times without any intervening write is spinning (wait loops of this library depend only on shared atomics)",
    "64-bit state hashes (collision probability negligible at these sizes)",
    "g++ 12 / glibc thread-local destructor order (sentinel constructed first is destroyed last)",
]


def L(lk, retry=0):
    return {"kind": "locks", "lk": lk, "retry": retry}


def lock_runs(families_by_lock, bound, dev=0, budget=60.0, job_budget=30.0, retry=0):
    runs = []
    for lk, fams in families_by_lock.items():
        if fams:
            runs.append(dict(h=L(lk, retry), families=fams, bound=bound, dev=dev, budget=budget, job_budget=job_budget))
    return runs
