"""Common driver code for /verif/check: builds harnesses from /repo's working tree, runs them,
filters known findings, validates violations by double replay, writes evidence and replay files."""
import fcntl
import hashlib
import json
import os
import shutil
import subprocess
import sys
import time

VERIF = os.path.dirname(os.path.dirname(os.path.abspath(__file__)))
REPO = os.environ.get("VERIF_REPO", "/repo")
BUILD = os.path.join(VERIF, "build")
EVIDENCE = os.environ.get("VERIF_EVIDENCE_DIR") or os.path.join(VERIF, "evidence")
REPLAYS = os.path.join(VERIF, "replays")
NPROC = int(os.environ.get("VERIF_NPROC", str(os.cpu_count() or 4)))
CXX = os.environ.get("CXX", "g++")

REPO_SRC = {
    "none": [],
    "pess": ["src/lock/pessimistic_lock.cpp"],
    "opt": ["src/lock/optimistic_lock.cpp"],
    "mcs": ["src/lock/mcs_lock.cpp"],
    "idm": ["src/thread/id_manager.cpp"],
    "epoch": ["src/thread/id_manager.cpp", "src/thread/epoch_manager.cpp", "src/thread/epoch_guard.cpp",
              "src/thread/component/epoch.cpp"],
    "zipf": ["src/random/zipf.cpp"],
    "all": ["src/lock/pessimistic_lock.cpp", "src/lock/optimistic_lock.cpp", "src/lock/mcs_lock.cpp", "src/thread/id_manager.cpp",
            "src/thread/epoch_manager.cpp", "src/thread/epoch_guard.cpp", "src/thread/component/epoch.cpp", "src/random/zipf.cpp"],
}


class InternalError(Exception):
    pass


def _hash_files(h, paths):
    for p in sorted(paths):
        h.update(p.encode())
        with open(p, "rb") as f:
            h.update(f.read())


def _tree(root, exts):
    out = []
    for d, _, fs in os.walk(root):
        for f in fs:
            if f.endswith(exts):
                out.append(os.path.join(d, f))
    return out


def build(name, repo_key, harness_src, defines, shim=True, extra_flags=(), plain_sources=(), link_engine=True):
    """Build one harness binary. Returns its path. Cached by content hash of every input."""
    os.makedirs(BUILD, exist_ok=True)
    repo_srcs = [os.path.join(REPO, s) for s in REPO_SRC[repo_key]]
    engine_files = _tree(os.path.join(VERIF, "engine"), (".hpp", ".cpp"))
    harness_files = _tree(os.path.join(VERIF, "harness"), (".hpp", ".cpp"))
    base = ["-std=gnu++20", "-O1", "-g", "-no-pie", "-fno-access-control",
            "-I" + os.path.join(VERIF, "engine"), "-I" + os.path.join(VERIF, "harness"),
            "-I" + os.path.join(REPO, "include")]
    if shim:
        base += ["-include", os.path.join(VERIF, "engine", "vshim.hpp"), "-DCPP_UTILITY_VERIF=1"]
    flags = base + ["-D" + d for d in defines] + list(extra_flags)
    h = hashlib.sha256()
    h.update(" ".join([CXX] + flags + [name, harness_src, "objcopy-v1"] + list(plain_sources)).encode())
    _hash_files(h, repo_srcs + _tree(os.path.join(REPO, "include"), (".hpp", ".h")) + engine_files + harness_files)
    key = h.hexdigest()[:20]
    outdir = os.path.join(BUILD, name + "-" + key)
    binary = os.path.join(outdir, name)
    lock_path = os.path.join(BUILD, ".lock-" + name)
    with open(lock_path, "w") as lf:
        fcntl.flock(lf, fcntl.LOCK_EX)
        if os.path.exists(binary):
            os.utime(outdir, None)
            return binary
        tmp = outdir + ".tmp%d" % os.getpid()
        shutil.rmtree(tmp, ignore_errors=True)
        os.makedirs(tmp)
        procs = []
        objs = []
        for i, src in enumerate(repo_srcs):
            o = os.path.join(tmp, "repo%d.o" % i)
            objs.append(o)
            procs.append((src, subprocess.Popen([CXX] + flags + ["-c", src, "-o", o], stderr=subprocess.PIPE)))
        ho = os.path.join(tmp, "harness.o")
        objs.append(ho)
        procs.append((harness_src, subprocess.Popen([CXX] + flags + ["-c", os.path.join(VERIF, "harness", harness_src), "-o", ho],
                                                    stderr=subprocess.PIPE)))
        if link_engine:
            eo = os.path.join(tmp, "engine.o")
            objs.append(eo)
            procs.append(("engine", subprocess.Popen(
                [CXX, "-std=gnu++20", "-O2", "-g", "-I" + os.path.join(VERIF, "engine"), "-c",
                 os.path.join(VERIF, "engine", "vs_engine.cpp"), "-o", eo], stderr=subprocess.PIPE)))
        for src, p in procs:
            _, err = p.communicate()
            if p.returncode != 0:
                shutil.rmtree(tmp, ignore_errors=True)
                raise InternalError("compilation of %s failed:\n%s" % (src, err.decode()[-4000:]))
        if shim and link_engine:
            # writable static data of the library goes to its own sections, so that the engine can restore
            # it to its initial image before every execution (globals that survive an execution would make
            # executions depend on their predecessors and break replay)
            for i in range(len(repo_srcs)):
                o = os.path.join(tmp, "repo%d.o" % i)
                r = subprocess.run(["objcopy", "--rename-section", ".data=repo_data", "--rename-section", ".bss=repo_bss", o],
                                   stderr=subprocess.PIPE)
                if r.returncode != 0:
                    shutil.rmtree(tmp, ignore_errors=True)
                    raise InternalError("objcopy failed: " + r.stderr.decode()[-1000:])
        p = subprocess.run([CXX, "-no-pie"] + list(extra_flags) + objs + ["-o", os.path.join(tmp, name), "-lpthread"],
                           stderr=subprocess.PIPE)
        if p.returncode != 0:
            shutil.rmtree(tmp, ignore_errors=True)
            raise InternalError("link of %s failed:\n%s" % (name, p.stderr.decode()[-4000:]))
        for o in objs:
            os.unlink(o)
        shutil.rmtree(outdir, ignore_errors=True)
        os.rename(tmp, outdir)
        _prune()
        return binary


def _prune(keep=60):
    try:
        ds = [os.path.join(BUILD, d) for d in os.listdir(BUILD) if not d.startswith(".")]
        ds = [d for d in ds if os.path.isdir(d) and ".tmp" not in d]
        ds.sort(key=lambda d: os.path.getmtime(d), reverse=True)
        for d in ds[keep:]:
            shutil.rmtree(d, ignore_errors=True)
    except OSError:
        pass


# ---------------------------------------------------------------------------------------------
# known findings
# ---------------------------------------------------------------------------------------------
def load_known(prop):
    path = os.path.join(VERIF, "known_findings.jsonl")
    out = []
    if os.path.exists(path):
        for line in open(path):
            line = line.strip()
            if not line or line.startswith("#") or line.startswith("fixed:"):
                continue
            try:
                d = json.loads(line)
            except ValueError:
                continue
            if d.get("status") == "open" and d.get("property") == prop:
                out.append(d)
    return out


def match_known(known, v):
    """v: dict(harness, program/input, sig). A finding lists exact (harness, sig) and optionally a
    program; a different signature or a different harness is still reported."""
    for k in known:
        if k.get("harness") and k["harness"] != v.get("harness"):
            continue
        if k.get("sig") and k["sig"] != v.get("sig"):
            continue
        if k.get("program") and k["program"] != v.get("program"):
            continue
        if k.get("programs") and v.get("program") not in k["programs"]:
            continue
        return k
    return None


# ---------------------------------------------------------------------------------------------
# evidence
# ---------------------------------------------------------------------------------------------
def write_evidence(prop, tier, level, coverage, assumptions, wall_s, violations, extra=None):
    os.makedirs(EVIDENCE, exist_ok=True)
    ev = {
        "property_id": prop,
        "tier": tier,
        "seed": int(os.environ.get("VERIF_SEED", "0") or 0),
        "level": level,
        "coverage": coverage,
        "assumptions": assumptions,
        "wall_s": round(wall_s, 3),
        "violations": violations,
    }
    if extra:
        ev.update(extra)
    tmp = os.path.join(EVIDENCE, "." + prop + ".json.tmp")
    with open(tmp, "w") as f:
        json.dump(ev, f, indent=1)
        f.write("\n")
    os.replace(tmp, os.path.join(EVIDENCE, prop + ".json"))
    # keep a copy per tier as well (evidence/<tier>/<id>.json), so that a later quick run does not erase
    # the record of the last thorough run
    tdir = os.path.join(EVIDENCE, tier)
    os.makedirs(tdir, exist_ok=True)
    with open(os.path.join(tdir, prop + ".json"), "w") as f:
        json.dump(ev, f, indent=1)
        f.write("\n")


def next_replay_path(prop, tag):
    os.makedirs(REPLAYS, exist_ok=True)
    h = hashlib.sha1(tag.encode()).hexdigest()[:10]
    return os.path.join(REPLAYS, "%s-%s.json" % (prop, h))


def run_cmd(argv, timeout):
    t0 = time.time()
    try:
        p = subprocess.run(argv, stdout=subprocess.PIPE, stderr=subprocess.PIPE, timeout=timeout)
        return p.returncode, p.stdout.decode(errors="replace"), p.stderr.decode(errors="replace"), time.time() - t0
    except subprocess.TimeoutExpired as e:
        return -9, (e.stdout or b"").decode(errors="replace"), "timeout", time.time() - t0
