"""Entry point of ./check."""
import json
import os
import sys
import time

from . import driver as D
from . import e1
from . import e3
from .specs import L, TRUST, lock_runs

ALL3 = (0, 1, 2)


def fam(*names, locks=ALL3):
    return {lk: list(names) for lk in locks}


def merge(*ds):
    out = {}
    for d in ds:
        for k, v in d.items():
            out.setdefault(k, [])
            out[k] += [x for x in v if x not in out[k]]
    return out


# property -> tier -> list of runs.  A run = families per lock class explored at one bound
# (-1 = no preemption bound: the state cache closes the search).
def lr(fams, bound, dev=0, budget=90.0, job_budget=60.0, retry=0):
    return lock_runs(fams, bound=bound, dev=dev, budget=budget, job_budget=job_budget, retry=retry)


OPT = (1,)
MCS = (2,)


def galg(depths, budget=120.0, roots=None):
    """Breadth-first search over single-thread histories of guard operations (harness/locks.cpp --galg): depths = {lock class: depth};
    roots: program prefixes the search starts from (default: fresh locks, and version 0xfffffffe for OptimisticLock)."""
    extra = ["--galg-roots", ",".join(r or "-" for r in roots)] if roots else []
    return [dict(h=L(lk), families=[], bound=0, budget=budget, job_budget=60.0, extra=["--galg", str(d)] + extra,
                 label="guard-algebra histories, depth %d%s (breadth-first, keyed by implementation state)" % (d, " from " + "/".join(r or "fresh" for r in roots) if roots else ""))
            for lk, d in depths.items()]


def galgc(depths, budget=150.0, job_budget=60.0):
    """Guard algebra under contention (harness/locks.cpp --galg D --galg-contend ...): one representative history of every distinct
    state the breadth-first search reaches within depth D is run as thread 0 against a second thread that performs one section on
    lock 0, every interleaving (no preemption bound; the state cache closes the search)."""
    secs = {0: "S,SIX,X,U,D", 1: "S,SIX,X,U,D,Xvp,OX,P", 2: "S,SIX,X,U,D"}
    return [dict(h=L(lk), families=[], bound=-1, budget=budget, job_budget=job_budget, extra=["--galg", str(d), "--galg-contend", secs[lk]],
                 label="guard-algebra states of depth <= %d, each against one contending section (%s), all interleavings" % (d, secs[lk]))
            for lk, d in depths.items()]


GCQ = {0: 5, 1: 2, 2: 2}    # contended guard algebra: quick depths
GCT = {0: 8, 1: 3, 2: 3}    # thorough depths (PessimisticLock: every reachable state of the algebra)
GQ = {0: 8, 1: 5, 2: 6}     # quick depths (PessimisticLock: the search closes at depth 8)
GT = {0: 10, 1: 6, 2: 8}    # thorough depths


def lock_spec(prop, tier):
    q = tier == "quick"
    T = dict(budget=600.0, job_budget=450.0)  # thorough budgets
    if prop == "C01":
        if q:
            return (lr(merge(fam("p2x1", "conv2", "guards2"), fam("opt2", "prep2", locks=OPT)), -1)
                    + lr(fam("p2x2", "p3x1"), 2)
                    + lr(fam("rrw", locks=(0, 1)), 3) + galgc({0: 4, 1: 2}))
        return (galgc(GCT, 600, 120) + lr(merge(fam("p2x1", "conv2", "p2x2"), fam("opt2", "prep2", locks=OPT)), -1, **T)
                + lr(merge(fam("p3x1", "conv3", "p2x3"), fam("opt3", "prep3", locks=OPT)), 3, **T)
                + lr(fam("rrw"), 4, **T)
                + lr(fam("p3x2w", locks=(0, 1)), 3, **T)
                + lr(fam("p4x1", locks=MCS), 2, **T)
                + lr(fam("p2x1", "p3x1"), 2, dev=1, **T)
                + lr(fam("p2x2", "p3x1"), 2, retry=1, **T))
    if prop == "C02":
        if q:
            return (lr(merge(fam("p1", "p2x1", "conv2"), fam("prep2", locks=OPT)), -1)
                    + lr(fam("p2x2", "p3x1"), 2)
                    + lr(fam("p1"), 1, dev=1) + galg({0: 6, 1: 4, 2: 5}))
        return (galg(GQ, 600) + galgc(GCT, 600, 120) + lr(merge(fam("p1", "p2x1", "conv2", "p2x2", "twolocks"), fam("prep2", "opt2", locks=OPT)), -1, **T)
                + lr(merge(fam("p3x1", "conv3", "p2x3"), fam("warm2", locks=MCS)), 3, **T)
                + lr(fam("p4x1", locks=MCS), 2, **T)
                + lr(fam("p2x1", "p3x1"), 2, dev=1, **T)
                + lr(fam("p2x2", "p3x1"), 2, retry=1, **T))
    if prop == "C07":
        if q:
            return (lr(merge(fam("guards1", "guards2", "p2x1"), fam("opt1", "prep2", locks=OPT)), -1)
                    + lr(fam("p2x2"), 2) + galg(GQ) + galgc(GCQ))
        return (galg(GT, 900) + galgc(GCT, 600, 120) + lr(merge(fam("guards1", "guards2", "p2x1", "p2x2", "twolocks"), fam("opt1", "opt2", "prep2", locks=OPT)), -1, **T)
                + lr(merge(fam("guards3"), fam("prep3", locks=OPT)), 3, **T))
    if prop == "C08":
        if q:
            return (lr(merge(fam("p2x1", "conv2", "guards2"), fam("opt2", "prep2", "republish", locks=OPT)), -1)
                    + lr(fam("p2x2", "p3x1"), 2))
        return (galgc(GCT, 600, 120) + lr(merge(fam("p2x1", "conv2", "p2x2", "guards2"), fam("opt2", "prep2", "republish", locks=OPT)), -1, **T)
                + lr(merge(fam("p3x1", "conv3", "p2x3"), fam("opt3", "prep3", locks=OPT), fam("warm2", locks=MCS)), 3, **T)
                + lr(fam("p4x1", locks=MCS), 2, **T))
    if prop == "C10":
        if q:
            return lr(merge(fam("conv2"), fam("opt2", locks=OPT)), -1) + lr(fam("conv3"), 2) + galgc(GCQ)
        return (galgc(GCT, 600, 120) + lr(merge(fam("conv2", "p2x2"), fam("opt2", locks=OPT)), -1, **T)
                + lr(fam("conv3", "p3x2c"), 3, **T)
                + lr(fam("conv2"), 2, dev=1, **T))
    if prop == "C11":
        if q:
            return lr(fam("p2x1", "conv2", locks=MCS), -1) + lr(fam("p2x2", "p3x1", "conv3", "fifo4", locks=MCS), 2)
        return (lr(fam("p2x1", "conv2", "p2x2", locks=MCS), -1, **T)
                + lr(fam("p3x1", locks=MCS), 4, **T)
                + lr(fam("conv3", "fifo4", locks=MCS), 3, **T)
                + lr(fam("p3x2", "p4x1", locks=MCS), 2, **T)
                + lr(fam("p4s", locks=MCS), 3, **T))
    if prop == "C12":
        if q:
            return (lr(fam("p1", "p2x1", "conv2", "guards2", locks=MCS), -1)
                    + lr(fam("p2x2", "p3x1", "warm2", "twolocks", locks=MCS), 2) + galg({2: GQ[2]}) + galgc({2: GCQ[2]}))
        return (galg({2: GT[2]}, 900) + galgc({2: GCT[2]}, 600, 120) + lr(fam("p1", "p2x1", "conv2", "guards2", "p2x2", "twolocks", locks=MCS), -1, **T)
                + lr(fam("p3x1", "warm2", "guards3", "conv3", "p3x2", locks=MCS), 3, **T)
                + lr(fam("p4x1", locks=MCS), 2, **T)
                + lr(fam("p2x1", "p3x1", locks=MCS), 2, dev=1, **T))
    if prop == "C03":
        if q:
            return (lr(fam("opt1", "opt2", "republish", locks=OPT), -1) + lr(fam("opt2x2", locks=OPT), 2)
                    + lr(fam("opt1", locks=OPT), 2, dev=1) + lr(fam("opt2", locks=OPT), 2, dev=1) + galg({1: GQ[1]}))
        return (galg({1: GT[1]}, 900) + galg({1: GT[1]}, 900, roots=["v=1;"]) + lr(fam("opt1", "opt2", "republish", "opt2x2", locks=OPT), -1, **T)
                + lr(fam("opt3", locks=OPT), 4, **T)
                + lr(fam("opt2", "republish", "opt2x2", locks=OPT), -1, retry=1, **T)
                + lr(fam("opt2", "republish", locks=OPT), 3, dev=1, **T)
                + lr(fam("opt2", "republish", locks=OPT), -1, retry=2, **T))
    if prop == "C09":
        if q:
            return lr(fam("opt1", "ver2", locks=OPT), -1) + galg({1: GQ[1]})
        return (galg({1: GT[1]}, 900) + lr(fam("opt1", "ver2", "opt2", locks=OPT), -1, **T)
                + lr(fam("ver3", locks=OPT), 4, **T)
                + lr(fam("ver2", locks=OPT), -1, retry=1, **T)
                + lr(fam("ver2", locks=OPT), 3, dev=1, **T))
    if prop == "C13":
        if q:
            return (lr(fam("opt1", "prep2", locks=OPT), -1)
                    + lr(fam("prep2", locks=OPT), -1, retry=1)
                    + lr(fam("opt1", locks=OPT), 2, dev=1) + galg({1: 4}))
        return (galg({1: 6}, 900) + galgc({1: GCT[1]}, 600, 120) + lr(fam("opt1", "prep2", locks=OPT), -1, **T)
                + lr(fam("prep3", locks=OPT), 4, **T)
                + lr(fam("prep4", locks=OPT), 3, **T)
                + lr(fam("prep2", locks=OPT), -1, retry=1, **T)
                + lr(fam("prep3", locks=OPT), 3, retry=1, **T)
                + lr(fam("prep2", locks=OPT), 3, dev=1, **T)
                + lr(fam("prep2", locks=OPT), -1, retry=2, **T))
    return None


def idm_runs(caps, families, bound, budget=90.0, job_budget=45.0):
    return [dict(h={"kind": "idm", "cap": c}, families=list(families), bound=bound, budget=budget, job_budget=job_budget) for c in caps]


def idm_spec(prop, tier):
    q = tier == "quick"
    if prop == "C05":
        if q:
            return (idm_runs((1,), ("basic", "over"), 4) + idm_runs((2,), ("basic", "over1"), 4) + idm_runs((2,), ("over",), 2)
                    + idm_runs((3,), ("basic", "over1"), 2) + idm_runs((4,), ("basic",), 2)
                    + idm_runs((1,), ("churn", "stay"), 3) + idm_runs((2,), ("churn", "stay"), 2) + caps_runs(QUICK_CAPS))
        return (caps_runs(THOROUGH_CAPS) + idm_runs((1,), ("basic", "over", "reuse"), 5, 400, 300) + idm_runs((2,), ("basic", "over1"), 5, 400, 300)
                + idm_runs((2, 3), ("basic", "over", "reuse"), 3, 400, 300) + idm_runs((4,), ("basic", "over1"), 2, 400, 300)
                + idm_runs((1, 2), ("churn", "stay"), 4, 500, 500) + idm_runs((3,), ("churn", "stay"), 2, 400, 400))
    if prop == "C14":
        if q:
            return (idm_runs((1, 2), ("over", "reuse", "salted", "pinned"), 3) + idm_runs((3,), ("over1", "reuse1", "salted", "pinned"), 2)
                    + idm_runs((1,), ("churn", "stay"), 3) + idm_runs((2,), ("churn", "stay"), 2) + caps_runs(QUICK_CAPS))
        return (caps_runs(THOROUGH_CAPS) + idm_runs((1, 2, 3), ("over", "reuse", "big", "salted", "pinned"), 3, 400, 300)
                + idm_runs((4,), ("over1", "reuse1", "salted"), 2, 400, 300)
                + idm_runs((1, 2), ("churn", "stay"), 3, 500, 500) + idm_runs((3,), ("churn", "stay"), 2, 400, 400))
    if prop == "C15":
        if q:
            return (idm_runs((1, 2), ("basic", "over", "reuse"), 3) + idm_runs((3,), ("basic", "over1", "reuse1"), 2)
                    + idm_runs((1,), ("churn", "stayh"), 3) + idm_runs((2,), ("churn", "stayh"), 2)
                    + caps_runs(QUICK_CAPS[:3]) + [ep(1, ("hb",), 3), ep(2, ("hb",), 2)])
        return (idm_runs((1, 2, 3), ("basic", "over", "reuse", "big"), 3, 400, 300) + idm_runs((4,), ("basic", "reuse1"), 2, 400, 300)
                + idm_runs((1, 2), ("churn", "stayh"), 3, 500, 500)
                + [ep(1, ("hb",), 5, 400, 300), ep(2, ("hb",), 3, 400, 300)])
    return None


QUICK_CAPS = (5, 8, 33, 64, 65, 129)
THOROUGH_CAPS = (5, 6, 7, 8, 9, 10, 15, 16, 17, 31, 32, 33, 63, 64, 65, 100, 127, 128, 129, 130, 200, 257)


def caps_runs(caps, budget=120.0, job_budget=60.0):
    """sequential claim / release / oversubscription histories at larger capacities (harness/idm_caps.cpp)"""
    return [dict(h={"kind": "idmcaps", "cap": c}, families=["all"], bound=0, budget=budget, job_budget=job_budget,
                 label="sequential claim/release histories, every probe-start pattern") for c in caps]


IDM_PROPS = {"C05", "C14", "C15"}


def ep(cap, families, bound, budget=60.0, job_budget=30.0, extra=(), label=None):
    d = dict(h={"kind": "epoch", "cap": cap}, families=list(families), bound=bound, budget=budget, job_budget=job_budget, extra=list(extra))
    if label:
        d["label"] = label
    return d


def epoch_spec(prop, tier):
    q = tier == "quick"
    if prop == "C04":
        if q:
            return [ep(1, ("pin1", "recycle", "recreate", "gen1s"), -1), ep(1, ("reuse", "twomgr"), 3), ep(2, ("pin1",), -1), ep(2, ("pin2", "reuse"), 2)]
        return [ep(1, ("pin1", "recycle", "recreate", "gen1", "genR"), -1, 600, 600), ep(1, ("reuse",), 6, 600, 600), ep(2, ("pin1", "recycle"), -1, 600, 600),
                ep(2, ("pin2", "public", "gen2"), 4, 600, 600), ep(2, ("reuse",), 3, 600, 600), ep(3, ("pin2", "public"), 3, 600, 600)]
    if prop == "C16":
        if q:
            return [ep(1, ("obs", "pin1", "moves", "gen1s"), -1), ep(1, ("twomgr",), 2), ep(2, ("obs", "moves"), 2),
                    ep(2, (), 0, 60, 30, ("--histories", "6"), "sequential histories depth 6")]
        return [ep(1, ("obs", "pin1", "moves", "list1", "gen1q"), -1, 600, 600), ep(1, ("twomgr",), 4, 600, 600),
                ep(2, ("obs", "pin1", "pin2", "moves", "gen2", "twomgr"), 4, 600, 600),
                ep(2, (), 0, 900, 120, ("--histories", "8"), "sequential histories depth 8")]
    if prop == "C17":
        if q:
            return [ep(1, ("list1", "gen1s"), -1), ep(1, ("recycle17",), 3), ep(2, ("list1", "list2"), 2)]
        return [ep(1, ("list1", "gen1"), -1, 600, 600), ep(1, ("recycle17", "genR"), -1, 600, 600), ep(2, ("recycle17",), 4, 600, 600), ep(2, ("list1",), -1, 600, 600), ep(2, ("list2", "public", "gen2"), 3, 600, 600),
                ep(3, ("list1", "list2"), 3, 600, 600)]
    if prop == "C20":
        if q:
            return [ep(2, (), 0, 80, 30, ("--histories", "6"), "sequential histories (incl. thread exits) depth 6"), ep(2, ("list1", "list2", "recreate", "recycle17"), 2)]
        return [ep(2, (), 0, 700, 120, ("--histories", "9"), "sequential histories (incl. thread exits) depth 9"),
                ep(1, (), 0, 600, 120, ("--histories", "11"), "sequential histories depth 11 (1 worker)"),
                ep(2, ("list1", "list2", "recreate", "recycle17", "pin2", "gen2"), 3, 600, 300)]
    return None


EPOCH_PROPS = {"C04", "C16", "C17", "C20"}

LOCK_PROPS = {"C01", "C02", "C03", "C07", "C08", "C09", "C10", "C11", "C12", "C13"}

ZIPF_TRUST = [
    "the finite grid of (type, bin count, min, skew) configurations stated in coverage.rule; inside the grid coverage is complete",
    "std::uniform_real_distribution<double> of libstdc++ maps a 64-bit engine output monotonically to the variate (checked by the bisection itself)",
    "long double (80-bit) Kahan-summed reference for C18",
]

LEVEL_NOTE = ("bounded exhaustive schedule exploration of the compiled library under a serialising scheduler "
              "(preemption bound per run listed in coverage.runs; state cache closes the search within the bound)")


def run_check(prop, tier):
    if prop in LOCK_PROPS:
        runs = lock_spec(prop, tier)
        return e1.check_property(prop, tier, runs, LEVEL_NOTE, TRUST)
    if prop in IDM_PROPS:
        return e1.check_property(prop, tier, idm_spec(prop, tier), LEVEL_NOTE, TRUST)
    if prop in ("C06", "C18", "C19"):
        return e3.check_property(prop, tier, ZIPF_TRUST)
    if prop in EPOCH_PROPS:
        return e1.check_property(prop, tier, epoch_spec(prop, tier), LEVEL_NOTE, TRUST)
    print("no check registered for %s" % prop)
    return 2


def setup():
    t0 = time.time()
    for lk in ALL3:
        for retry in (0, 1):
            e1.harness_binary(L(lk, retry))
    for cap in (1, 2, 3, 4):
        e1.harness_binary({"kind": "idm", "cap": cap})
    for cap in QUICK_CAPS:
        e1.harness_binary({"kind": "idmcaps", "cap": cap})
    for cap in (1, 2, 3):
        e1.harness_binary({"kind": "epoch", "cap": cap})
    e3.binary()
    # audit of the instrumentation layer: plain build vs shim in pass-through mode
    defs = ["CPP_UTILITY_HAS_SPINLOCK_HINT", "CPP_UTILITY_SPINLOCK_RETRY_NUM=10", "CPP_UTILITY_BACKOFF_TIME=10", "DBGROUP_MAX_THREAD_NUM=8"]
    plain = D.build("smoke_plain", "all", "smoke.cpp", defs, shim=False, link_engine=False)
    shim = D.build("smoke_shim", "all", "smoke.cpp", defs, shim=True, link_engine=True)
    r1 = D.run_cmd([plain], 120)
    r2 = D.run_cmd([shim], 120)
    if r1[0] != 0 or r2[0] != 0 or r1[1] != r2[1] or not r1[1]:
        print("INTERNAL-ERROR: shim audit failed: plain rc=%s shim rc=%s" % (r1[0], r2[0]))
        import difflib
        for line in list(difflib.unified_diff(r1[1].splitlines(), r2[1].splitlines(), "plain", "shim", lineterm=""))[:40]:
            print("  " + line)
        return 2
    print("shim audit ok: %d observable lines identical between the plain and the instrumented (pass-through) build" % len(r1[1].splitlines()))
    # the explorer against programs whose complete behaviour is known (independent brute-force enumeration inside)
    st = D.build("selftest", "none", "selftest.cpp", [], shim=True, link_engine=True)
    r3 = D.run_cmd([st], 400)
    if r3[0] != 0:
        print("INTERNAL-ERROR: engine self-test failed (rc=%s)" % r3[0])
        print(r3[1][-3000:])
        return 2
    print(r3[1].strip().splitlines()[-1])
    print("setup ok (%.1fs)" % (time.time() - t0))
    return 0


def main(argv):
    tier = os.environ.get("VERIF_TIER", "quick")
    prop = None
    i = 0
    while i < len(argv):
        a = argv[i]
        if a == "--setup":
            try:
                return setup()
            except D.InternalError as e:
                print("INTERNAL-ERROR: %s" % e)
                return 2
        elif a == "--replay":
            path = argv[i + 1]
            if not os.path.isabs(path):
                path = os.path.join(D.VERIF, path)
            try:
                with open(path) as fh:
                    rj = json.load(fh)
                if rj.get("harness") == "zipf_enum":
                    return e3.replay_file(rj)
                return e1.replay_file(path)
            except D.InternalError as e:
                print("INTERNAL-ERROR: %s" % e)
                return 2
        elif a == "--tier":
            tier = argv[i + 1]
            i += 1
        elif a.startswith("C"):
            prop = a
        i += 1
    if prop is None:
        print(__doc__)
        return 2
    try:
        return run_check(prop, tier)
    except D.InternalError as e:
        print("INTERNAL-ERROR: %s" % e)
        return 2
