"""Runner for the schedule-exploration harnesses (locks, idm, epoch). Each harness binary accepts
   --family F ... --bound B --dev D --budget S --job-budget S --nproc N --out FILE   (exploration)
   --replay --program P --choices C                                                  (replay)
and emits one JSON object per program (see vs::ResultToJson)."""
import json
import os
import tempfile
import time

from . import driver as D

LOCK_SRC = {0: "pess", 1: "opt", 2: "mcs"}
LOCK_NAME = {0: "PessimisticLock", 1: "OptimisticLock", 2: "MCSLock"}


def harness_binary(h):
    """h: dict(kind=..., plus build parameters). Returns (binary, harness_id)."""
    kind = h["kind"]
    if kind == "locks":
        lk, retry = h["lk"], h.get("retry", 0)
        name = "locks%d%d" % (lk, retry)
        defines = ["LK=%d" % lk, "CPP_UTILITY_HAS_SPINLOCK_HINT", "CPP_UTILITY_SPINLOCK_RETRY_NUM=%d" % retry,
                   "CPP_UTILITY_BACKOFF_TIME=10", "DBGROUP_MAX_THREAD_NUM=2"]
        return D.build(name, LOCK_SRC[lk], "locks.cpp", defines), "%s/retry%d" % (LOCK_NAME[lk], retry)
    if kind == "idm":
        cap = h["cap"]
        name = "idm%d" % cap
        defines = ["DBGROUP_MAX_THREAD_NUM=%d" % cap]
        return D.build(name, "idm", "idm.cpp", defines), "IDManager/cap%d" % cap
    if kind == "epoch":
        cap = h["cap"]
        name = "epoch%d" % cap
        defines = ["DBGROUP_MAX_THREAD_NUM=%d" % cap]
        return D.build(name, "epoch", "epoch.cpp", defines), "EpochManager/cap%d" % cap
    if kind == "idmcaps":
        cap = h["cap"]
        name = "idmcaps%d" % cap
        defines = ["DBGROUP_MAX_THREAD_NUM=%d" % cap]
        return D.build(name, "idm", "idm_caps.cpp", defines, shim=True, link_engine=False), "IDManager/cap%d/sequential" % cap
    raise D.InternalError("unknown harness kind " + kind)


def explore(h, families, bound, dev=0, budget=60.0, job_budget=30.0, extra=(), programs=()):
    binary, hid = harness_binary(h)
    fd, out = tempfile.mkstemp(prefix="vs-", suffix=".jsonl", dir=D.BUILD)
    os.close(fd)
    argv = [binary, "--bound", str(bound), "--dev", str(dev), "--budget", str(budget), "--job-budget", str(job_budget),
            "--nproc", str(D.NPROC), "--out", out]
    for f in families:
        argv += ["--family", f]
    for p in programs:
        argv += ["--program", p]
    argv += list(extra)
    rc, so, se, wall = D.run_cmd(argv, timeout=budget + job_budget + 180)
    rows = []
    try:
        with open(out) as f:
            for line in f:
                line = line.strip()
                if line:
                    rows.append(json.loads(line))
    finally:
        try:
            os.unlink(out)
        except OSError:
            pass
    if rc not in (0,) and not rows:
        raise D.InternalError("harness %s failed (rc=%s): %s %s" % (hid, rc, so[-2000:], se[-2000:]))
    return rows, hid, binary, wall


def replay(h, program, choices, dev=0, extra=()):
    binary, hid = harness_binary(h)
    argv = [binary, "--replay", "--program", program, "--choices", choices, "--dev", str(dev)] + list(extra)
    rc, so, se, _ = D.run_cmd(argv, timeout=120)
    return rc, so, se


def check_property(prop, tier, runs, level_note, assumptions):
    """runs: list of dict(h=..., families=[...], bound=, dev=, budget=, job_budget=, label=)."""
    t0 = time.time()
    known = D.load_known(prop)
    total = dict(programs=0, executions=0, steps=0, states=0, choice_points=0, blocked=0, pruned=0)
    per_run = []
    found = {}      # (hid, sig) -> violation dict
    internal = []
    samples = []
    all_exhaustive = True
    outcomes_max = 0
    # Global deadline of one check (seconds, VERIF_DEADLINE_S): a run that would start after it is recorded as skipped, the budget
    # of the others is clamped to the time left; the check then still reports what it covered (exhaustive = false), never an alarm.
    deadline = float(os.environ.get("VERIF_DEADLINE_S", "1800" if tier == "quick" else "12600"))
    for r in runs:
        left = deadline - (time.time() - t0)
        if left < 30.0:
            _, hid = harness_binary(r["h"])
            per_run.append(dict(label=r.get("label", ",".join(r["families"])), harness=hid, bound=r["bound"], dev=r.get("dev", 0),
                                programs=0, executions=0, steps=0, states=0, blocked_execs=0, multi_outcome_programs=0,
                                exhaustive=False, skipped="global deadline of %.0f s reached before this run" % deadline,
                                not_run=0, min_bound_completed=None, cache_saturated_programs=0, wall_s=0.0))
            all_exhaustive = False
            continue
        budget = min(r.get("budget", 60.0), left)
        rows, hid, binary, wall = explore(r["h"], r["families"], r["bound"], r.get("dev", 0), budget,
                                          min(r.get("job_budget", 30.0), budget), r.get("extra", ()))
        st = dict(label=r.get("label", ",".join(r["families"])), harness=hid, bound=r["bound"], dev=r.get("dev", 0),
                  programs=0, executions=0, steps=0, states=0, blocked_execs=0, multi_outcome_programs=0,
                  exhaustive=True, not_run=0, min_bound_completed=None, cache_saturated_programs=0, wall_s=round(wall, 2))
        for row in rows:
            if row.get("summary"):
                if row.get("introspection"):
                    st["introspection"] = row["introspection"]
                if row.get("layout"):
                    st["layout"] = row["layout"]
                for k in ("galg_depth_completed", "galg_states", "galg_transitions", "histories_depth_completed", "model_states", "model_transitions"):
                    if k in row:
                        st[k] = row[k]
                if row.get("cut"):
                    st["exhaustive"] = False
                continue
            res = row.get("result")
            if row["status"] == 3:
                st["not_run"] += 1
                st["exhaustive"] = False
                continue
            if row["status"] == 2 or res is None:
                internal.append("%s: program '%s': %s" % (hid, row.get("program"), row.get("err")))
                continue
            st["programs"] += res.get("programs", 1)
            st["executions"] += res["executions"]
            st["steps"] += res["steps"]
            st["states"] += max(res["states"], 1)
            st["blocked_execs"] += res["blocked_execs"]
            st["cache_saturated_programs"] += 1 if res.get("cache_saturated") else 0
            total["choice_points"] += res["choice_points"]
            total["pruned"] += res["pruned"]
            if res["n_outcomes"] > 1:
                st["multi_outcome_programs"] += 1
            outcomes_max = max(outcomes_max, res["n_outcomes"])
            fatal_here = any(v["fatal"] for v in res["violations"])
            if not res["exhaustive"] and not fatal_here:
                st["exhaustive"] = False
            bc = res["bound_completed"]
            if not fatal_here:
                st["min_bound_completed"] = bc if st["min_bound_completed"] is None else min(st["min_bound_completed"], bc)
            if len(samples) < 6 and res["executions"] > 1:
                samples.append({"harness": hid, "program": row["program"], "schedule": res["sample_trace"],
                                "executions": res["executions"], "outcomes": res["outcomes"][:3]})
            for v in res["violations"]:
                props = v["props"].split(",")
                if prop not in props and "INTERNAL" not in props and "CRASH" not in props:
                    continue
                if "INTERNAL" in props:
                    internal.append("%s: %s: %s" % (hid, row["program"], v["msg"]))
                    continue
                key = (hid, v["sig"])
                cand = dict(v, harness=hid, program=row["program"], h=r["h"], dev=r.get("dev", 0), extra=list(r.get("extra", ())))
                if key not in found or (cand["cost"], len(cand["choices"]), len(cand["program"])) < (found[key]["cost"], len(found[key]["choices"]), len(found[key]["program"])):
                    found[key] = cand
        for k in ("programs", "executions", "steps", "states"):
            total[k] += st[k]
        total["blocked"] += st["blocked_execs"]
        all_exhaustive = all_exhaustive and st["exhaustive"]
        per_run.append(st)

    # classify violations
    new_violations = []
    known_lines = []
    for (hid, sig), v in sorted(found.items()):
        k = D.match_known(known, v)
        if k is not None:
            known_lines.append("KNOWN-FINDING: property=%s %s [%s] %s" % (prop, k.get("id", ""), hid, k.get("what", sig)))
            continue
        # validate by two replays
        rc1, so1, _ = replay(v["h"], v["program"], v["choices"], v["dev"], v["extra"])
        rc2, so2, _ = replay(v["h"], v["program"], v["choices"], v["dev"], v["extra"])
        marker = "[%s] %s" % (v["props"], v["sig"])
        if so1 != so2 or marker not in so1:
            internal.append("NONDETERMINISM: %s program '%s' sig %s does not replay identically (rc %s/%s)" %
                            (hid, v["program"], sig, rc1, rc2))
            continue
        path = D.next_replay_path(prop, hid + v["program"] + sig)
        with open(path, "w") as f:
            json.dump({"property": prop, "props": v["props"], "harness": hid, "h": v["h"], "dev": v["dev"], "extra": v["extra"],
                       "program": v["program"], "choices": v["choices"], "sig": v["sig"], "msg": v["msg"],
                       "preemptions": v["cost"]}, f, indent=1)
            f.write("\n")
        new_violations.append((v, path))

    wall = time.time() - t0
    coverage = {
        "states": max(total["states"], 1),
        "transitions": max(total["steps"], 1),
        "traces_validated_against_impl": total["executions"],
        "samples": samples or [{"note": "no multi-execution program"}],
        "exhaustive": bool(all_exhaustive and not internal),
        "programs": total["programs"],
        "executions": total["executions"],
        "choice_points": total["choice_points"],
        "executions_with_a_waiting_thread": total["blocked"],
        "executions_cut_by_state_cache": total["pruned"],
        "max_distinct_outcomes_of_one_program": outcomes_max,
        "runs": per_run,
        "explanation": "every execution is an execution of the real compiled library code under the serialising scheduler; "
                       "'states' counts distinct hashed states at choice points, 'transitions' counts executed atomic steps",
        "known_findings_reported": len(known_lines),
    }
    vacuous = total["executions"] > 0 and total["blocked"] == 0 and outcomes_max <= 1
    if vacuous:
        coverage["vacuity_warning"] = "no execution made a thread wait and every program had one outcome"
    D.write_evidence(prop, tier, "model_checking", coverage, assumptions, wall, len(new_violations) + len(known_lines),
                     {"level_note": level_note})
    for line in known_lines:
        print(line)
    print("%s tier=%s programs=%d executions=%d states=%d transitions=%d exhaustive=%s wall=%.1fs" %
          (prop, tier, total["programs"], total["executions"], total["states"], total["steps"], coverage["exhaustive"], wall))
    if internal:
        for m in internal[:10]:
            print("INTERNAL-ERROR: " + m)
        if not new_violations:
            return 2
    new_violations.sort(key=lambda x: (x[0]["cost"], len(x[0]["choices"]), len(x[0]["program"])))
    for v, path in new_violations[:8]:
        print("VIOLATION property=%s replay=%s" % (prop, os.path.relpath(path, D.VERIF)))
        print("  harness=%s program='%s' preemptions=%d: %s" % (v["harness"], v["program"], v["cost"], v["msg"]))
    if len(new_violations) > 8:
        print("  (+%d further violation signatures; replay files written for all)" % (len(new_violations) - 8))
    return 1 if new_violations else 0


def replay_file(path):
    with open(path) as f:
        r = json.load(f)
    rc, so, se = replay(r["h"], r["program"], r["choices"], r.get("dev", 0), r.get("extra", ()))
    print(so, end="")
    marker = "[%s] %s" % (r["props"], r["sig"])
    if marker in so:
        print("REPRODUCED: %s" % marker)
        return 1
    print("NOT REPRODUCED: %s (rc=%s) %s" % (marker, rc, se[-500:]))
    return 0
